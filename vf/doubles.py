"""Test doubles: fault-injecting recording stream, scripted socket, real socketpair feeder."""

import io
import socket
import zlib
import sys
import threading
import time


from vf import FAKE_CLOCK  # virtual time, installed in vf/__init__ before pyrtcm is imported


class BudgetExceeded(BaseException):
    """Raised by a double when the logical step budget (number of read/recv calls) is exceeded.

    BaseException on purpose: it must not be swallowed by `except Exception` in the code under test.
    """


class CountingStream:
    """Delegates read/readline to an inner stream, counting calls against a budget."""

    def __init__(self, inner, budget=None):
        self.inner = inner
        self.calls = 0
        self.budget = budget

    def _tick(self):
        self.calls += 1
        if self.budget is not None and self.calls > self.budget:
            raise BudgetExceeded(f"{self.calls} read calls > budget {self.budget}")

    def read(self, n=-1):
        self._tick()
        return self.inner.read(n)

    def readline(self):
        self._tick()
        return self.inner.readline()

    def __getattr__(self, name):
        # everything else (seek, tell, seekable, readinto, fileno ...) behaves exactly as on the wrapped object
        return getattr(self.inner, name)


class RecordingStream:
    """File-like read(n)/readline() over `data` that logs every call and injects faults.

    fault_plan: {call_index: kind}; kinds:
      'short'  - return 1..n-1 bytes (only if n > 1 and >= 1 byte available; consumes them)
      'empty'  - return b'' although data remains (timeout-like; consumes nothing)
      'eof'    - from this call on the stream is at end-of-data
      'partial'- readline returns a line fragment without the LF (consumes it)
    """

    def __init__(self, data: bytes, fault_plan=None, rng=None, record_callers=False, budget=None, rtype=None,
                 pauses=None):
        # rtype=bytearray: read()/readline() hand out a fresh bytearray per call instead of bytes
        # pauses: stream offsets at which ONE read/readline call returns nothing although data follows (a growing
        #         file / serial timeout at that point); the next call continues normally
        self.rtype = rtype
        self.pauses = set(pauses or ())
        self.paused = 0
        self.budget = budget
        self.data = data
        self.pos = 0
        self.plan = fault_plan or {}
        self.calls = 0
        self.log = []  # (seq, kind, offset, requested, returned_len, fault)
        self.dead = False
        self.rng = rng
        self.record_callers = record_callers
        self.callers = {}
        self.faults_applied = []

    def _caller(self):
        try:
            f = sys._getframe(2)
            names = []
            for _ in range(3):
                names.append(f.f_code.co_name)
                f = f.f_back
                if f is None:
                    break
            return "<".join(names)
        except Exception:
            return "?"

    def read(self, n=-1):
        seq = self.calls
        self.calls += 1
        if self.budget is not None and self.calls > self.budget:
            raise BudgetExceeded(f"{self.calls} read calls > budget {self.budget}")
        off = self.pos
        fault = self.plan.get(seq)
        if n is None or n < 0:
            n = len(self.data) - self.pos
        if self.pos in self.pauses and not self.dead:
            self.pauses.discard(self.pos)
            self.paused += 1
            self.log.append((seq, "read", off, n, 0, "pause"))
            return b"" if self.rtype is None else self.rtype(b"")
        if self.dead:
            out = b""
        elif fault == "eof":
            self.dead = True
            out = b""
        elif fault == "empty":
            out = b""
        elif isinstance(fault, (list, tuple)) and fault[0] == "short" and n > 1 and len(self.data) - self.pos >= 1:
            # directed short read: exactly fault[1] bytes (clipped to 1..n-1 and to what is left)
            k = max(1, min(int(fault[1]), n - 1, len(self.data) - self.pos))
            out = self.data[self.pos : self.pos + k]
            self.pos += k
            fault = "short"
        elif fault == "short" and n > 1 and len(self.data) - self.pos >= 1:
            avail = min(n - 1, len(self.data) - self.pos)
            k = 1 if self.rng is None else self.rng.randint(1, avail)
            out = self.data[self.pos : self.pos + k]
            self.pos += k
        else:
            if fault in ("short",) or isinstance(fault, (list, tuple)):
                fault = None  # not applicable here
            out = self.data[self.pos : self.pos + n]
            self.pos += len(out)
        if fault and (fault != "partial"):
            self.faults_applied.append((seq, fault, off, n))
        self.log.append((seq, "read", off, n, len(out), fault))
        if self.record_callers:
            c = self._caller()
            self.callers[c] = self.callers.get(c, 0) + 1
            if fault:
                self.callers["F:" + fault + ":" + c] = self.callers.get("F:" + fault + ":" + c, 0) + 1
        return out if self.rtype is None else self.rtype(out)

    def readline(self):
        seq = self.calls
        self.calls += 1
        if self.budget is not None and self.calls > self.budget:
            raise BudgetExceeded(f"{self.calls} read calls > budget {self.budget}")
        off = self.pos
        fault = self.plan.get(seq)
        if self.pos in self.pauses and not self.dead:
            self.pauses.discard(self.pos)
            self.paused += 1
            self.log.append((seq, "readline", off, -1, 0, "pause"))
            return b"" if self.rtype is None else self.rtype(b"")
        if self.dead:
            out = b""
        elif fault == "eof":
            self.dead = True
            out = b""
        elif fault == "empty":
            out = b""
        else:
            i = self.data.find(b"\n", self.pos)
            end = len(self.data) if i < 0 else i + 1
            if fault in ("partial", "short") and end - self.pos > 1:
                k = 1 if self.rng is None else self.rng.randint(1, end - self.pos - 1)
                end = self.pos + k
                fault = "partial"
            else:
                fault = None if fault in ("partial", "short") else fault
            out = self.data[self.pos : end]
            self.pos = end
        if fault:
            self.faults_applied.append((seq, fault, off, -1))
        self.log.append((seq, "readline", off, -1, len(out), fault))
        if self.record_callers:
            c = self._caller()
            self.callers[c] = self.callers.get(c, 0) + 1
            if fault:
                self.callers["F:" + fault + ":" + c] = self.callers.get("F:" + fault + ":" + c, 0) + 1
        return out if self.rtype is None else self.rtype(out)

    def readinto(self, b):
        """file-like readinto with the same fault semantics as read()."""
        out = bytes(self.read(len(b)))
        b[: len(out)] = out
        return len(out)

    @property
    def exhausted(self):
        return self.dead or self.pos >= len(self.data)


class RawChunky(io.RawIOBase):
    """Raw stream that hands data to a BufferedReader in arbitrary pieces (never faults)."""

    def __init__(self, data: bytes, sizes):
        self._data = data
        self._pos = 0
        self._sizes = list(sizes)
        self._i = 0

    def readable(self):
        return True

    def readinto(self, b):
        if self._pos >= len(self._data):
            return 0
        k = self._sizes[self._i % len(self._sizes)] if self._sizes else len(b)
        self._i += 1
        k = max(1, min(k, len(b), len(self._data) - self._pos))
        b[:k] = self._data[self._pos : self._pos + k]
        self._pos += k
        return k


class ScriptedSocket(socket.socket):
    """A real socket.socket subclass whose recv() follows a schedule.

    schedule items: int k -> a segment of k bytes arrives (recv returns at most min(k, n));
                    'T'   -> this recv raises TimeoutError
                    'E'   -> this recv raises OSError
    When the schedule is exhausted the remaining data arrives as one segment, then b'' (closed).
    """

    def __init__(self, data: bytes, schedule=(), close_at_end=True, budget=None, tls=None):
        super().__init__(socket.AF_INET, socket.SOCK_STREAM)
        # one in four scripted sockets (decided by the data, so replays agree) is TLS-like: a socket that ALSO has
        # a read(len) method returning at most len bytes of what has arrived, as ssl.SSLSocket has
        if tls is None:
            tls = zlib.crc32(bytes(data[:64])) % 4 == 0
        self.tls = bool(tls)
        if self.tls:
            self.read = self._tls_read
        self.budget = budget
        self._vdata = data
        self._vpos = 0
        self._sched = list(schedule)
        self._si = 0
        self._seg_left = 0
        self.recv_log = []  # (n, outcome) outcome = bytes length | 'T' | 'E'
        self.received = bytearray()  # everything handed out so far
        self.close_at_end = close_at_end
        self.faults = 0

    def recv(self, n, flags=0):
        if self.budget is not None and len(self.recv_log) >= self.budget:
            raise BudgetExceeded(f"recv calls > budget {self.budget}")
        if self._seg_left == 0:
            # next schedule item
            while True:
                if self._si < len(self._sched):
                    item = self._sched[self._si]
                    self._si += 1
                    if item == "T":
                        self.recv_log.append((n, "T"))
                        self.faults += 1
                        FAKE_CLOCK[0] += 45.0  # a receive timeout takes (virtual) time, see fake_clock()
                        raise TimeoutError("timed out")
                    if item == "E":
                        self.recv_log.append((n, "E"))
                        self.faults += 1
                        # OS errors as the operating system raises them: with and without an errno
                        import errno as _e

                        k = (self.faults + len(self._vdata)) % 5
                        if k == 0:
                            raise ConnectionResetError(_e.ECONNRESET, "Connection reset by peer")
                        if k == 1:
                            raise BrokenPipeError(_e.EPIPE, "Broken pipe")
                        if k == 2:
                            raise BlockingIOError(_e.EAGAIN, "Resource temporarily unavailable")
                        if k == 3:
                            raise OSError(_e.ENOTCONN, "Transport endpoint is not connected")
                        raise OSError("scripted error")
                    if item <= 0:
                        continue
                    self._seg_left = min(item, len(self._vdata) - self._vpos)
                else:
                    self._seg_left = len(self._vdata) - self._vpos
                break
        if self._vpos >= len(self._vdata):
            self.recv_log.append((n, 0))
            if self.close_at_end:
                return b""
            self.faults += 1
            raise TimeoutError("timed out (idle peer)")
        k = min(n, self._seg_left)
        out = self._vdata[self._vpos : self._vpos + k]
        self._vpos += k
        self._seg_left -= k
        self.received += out
        self.recv_log.append((n, k))
        return out

    def send(self, data, flags=0):
        return len(data)

    def _tls_read(self, len=1024, buffer=None):
        return self.recv(len)


def socketpair_feed(data: bytes, sizes, delay=0.0005):
    """Real AF_UNIX socket pair; a thread sends `data` in the given segment sizes, then closes.

    Returns (reader_socket, thread). The reader side is a genuine socket.socket.
    """
    a, b = socket.socketpair()

    def feeder():
        pos = 0
        i = 0
        try:
            while pos < len(data):
                k = sizes[i % len(sizes)] if sizes else len(data)
                i += 1
                a.sendall(data[pos : pos + k])
                pos += k
                if delay:
                    time.sleep(delay)
        finally:
            try:
                a.shutdown(socket.SHUT_WR)
            except OSError:
                pass
            a.close()

    t = threading.Thread(target=feeder, daemon=True)
    t.start()
    return b, t


def pipe_file(data: bytes):
    """A buffered, NON-seekable binary file object (read end of an OS pipe) fed by a writer thread.
    Returns (fileobj, thread). tell()/seek() raise on such objects although the methods exist."""
    import os

    r, w = os.pipe()

    def feed():
        try:
            with os.fdopen(w, "wb") as f:
                f.write(data)
        except OSError:
            pass

    t = threading.Thread(target=feed, daemon=True)
    t.start()
    return os.fdopen(r, "rb"), t


def makefile_stream(data: bytes):
    """socket.makefile('rb') over a real socket pair fed by a thread (buffered, non-seekable)."""
    a, b = socket.socketpair()

    def feed():
        try:
            a.sendall(data)
        except OSError:
            pass
        finally:
            a.close()

    t = threading.Thread(target=feed, daemon=True)
    t.start()
    f = b.makefile("rb")
    b.close()
    return f, t


class SerialLikeStream(RecordingStream):
    """RecordingStream with the extra surface of a pyserial port: in_waiting, timeout, reset_input_buffer() (which
    DISCARDS everything received but not yet read - here: the rest of the data), flush()."""

    timeout = 3
    port = "/dev/ttyVERIF0"
    resets = 0

    @property
    def in_waiting(self):
        return 0 if self.dead else len(self.data) - self.pos

    def reset_input_buffer(self):
        self.resets += 1
        self.pos = len(self.data)

    def reset_output_buffer(self):
        pass

    def flush(self):
        pass

    def write(self, b):
        return len(b)


class RawRecordingStream(io.RawIOBase, RecordingStream):
    """The same double as an io.RawIOBase subclass (what open(..., buffering=0), FIFOs and ttys give): isinstance
    checks against the io base classes succeed, read(n) may legitimately return fewer than n bytes."""

    def __init__(self, *a, **kw):
        io.RawIOBase.__init__(self)
        RecordingStream.__init__(self, *a, **kw)

    def readable(self):
        return True

    def read(self, n=-1):
        return RecordingStream.read(self, n)

    def readline(self, *a):
        return RecordingStream.readline(self)

    def readinto(self, b):
        return RecordingStream.readinto(self, b)


class SeekableRecordingStream(RecordingStream):
    """RecordingStream that also offers seek()/tell()/seekable() like a regular file or BytesIO."""

    def seekable(self):
        return True

    def tell(self):
        return self.pos

    def seek(self, offset, whence=0):
        if whence == 0:
            self.pos = offset
        elif whence == 1:
            self.pos += offset
        else:
            self.pos = len(self.data) + offset
        self.pos = max(0, min(self.pos, len(self.data)))
        self.log.append((self.calls, "seek", self.pos, offset, 0, None))
        return self.pos
