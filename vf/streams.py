"""Stream item generators: RTCM3 frames, NMEA, UBX, noise, damage in guaranteed-detectable classes.

Frames are always built with the reference CRC (vf.refcrc), never with the code under test.
"""

from vf import refcrc, refmodel

SYNC = (0xD3, 0xB5, 0x24)
NMEA_SECOND = "VMPBDILGFSHREYACZTW"  # pinned copy of the talker prefixes the reader recognises
INERT = bytes(b for b in range(256) if b not in SYNC)


def header_bytes(msgnum: int, subtype=None) -> bytes:
    """First 2 (3 for 4076) payload bytes carrying message number (+ sub-type), rest bits zero."""
    if subtype is None:
        return bytes([msgnum >> 4, (msgnum & 0xF) << 4])
    v = (msgnum << 12) | (1 << 9) | (subtype << 1)  # IDF001 (3 bits) = 1, IDF002 = subtype
    return v.to_bytes(3, "big")


def unknown_numbers():
    defs, _ = refmodel.tables()
    known = {int(k[:4]) for k in defs}
    return [n for n in range(4096) if n not in known and n != 4076]


_UNKNOWN = None


def rand_unknown_payload(rng, length=None):
    """Payload of an unimplemented message number with random body (length >= 2)."""
    global _UNKNOWN
    if _UNKNOWN is None:
        _UNKNOWN = unknown_numbers()
    num = rng.choice(_UNKNOWN)
    if length is None:
        length = rng.choice((2, 3, 4, 7, 19, 60, 255, 256))
    length = max(2, length)
    body = bytearray(rng.getrandbits(8) for _ in range(length))
    body[0] = num >> 4
    body[1] = ((num & 0xF) << 4) | (body[1] & 0x0F)
    return bytes(body)


_IDS = None


def rand_defined_payload(rng, identity=None, **kw):
    global _IDS
    if _IDS is None:
        _IDS = [i for i in refmodel.identities() if refmodel.reachable(i)]
    if identity is None:
        identity = rng.choice(_IDS)
    if not kw and rng.random() < 0.15:
        # laid out from the PINNED geometry (vf.stdgeom: the standards' widths and repeat structure, random content)
        from vf import stdgeom

        if identity in stdgeom.SPEC:
            try:
                nbits, val, _ = stdgeom.generate(identity, rng, rng.choice(("small", "one", "small", "random")))
                pl = stdgeom.to_payload(nbits, val, rng.getrandbits(8))[0]
                if len(pl) <= 1023:
                    return pl
            except RuntimeError:
                pass
    kw.setdefault("vstrat", rng.choice(("random", "mixed", "ones", "zero", "related")))
    kw.setdefault("cstrat", rng.choice(("small", "small", "one", "random")))
    if "tabs" not in kw and rng.random() < 0.4:
        # laid out from the PINNED field layouts (vf.stdlayout) instead of the repository's tables read as data: a
        # well-formed message of the standard stays well-formed for the generator even if a table entry was changed
        from vf import stdlayout

        if identity in stdlayout.LAYOUT:
            try:
                return refmodel.build(identity, rng, tabs=(stdlayout.LAYOUT, stdlayout.F), **kw).payload
            except Exception:
                pass
    for _ in range(20):
        try:
            return refmodel.build(identity, rng, **kw).payload
        except refmodel.DefinitionError:
            # malformed definition tables are C03/C10's business; stream generators skip them
            identity = rng.choice(_IDS)
    raise RuntimeError("no buildable identity")


def pad_payload(payload: bytes, length: int, rng) -> bytes:
    if len(payload) >= length:
        return payload
    return payload + bytes(rng.getrandbits(8) for _ in range(length - len(payload)))


def rand_frame(rng, kind=None):
    """Returns (frame, payload, kind). Kinds cover implemented, unknown, boundary lengths."""
    if kind is None:
        kind = rng.choice(("defined", "defined", "defined", "unknown", "len0", "len1", "len2",
                           "len255", "len256", "len1022", "len1023", "defmax", "steered"))
    if kind == "steered":
        # a valid frame whose CHECKSUM BYTES have a chosen value (zeros, ones, CR LF, sync bytes, '%', quotes ...): the
        # last three payload bytes (padding behind the last field / unknown-type content) steer the CRC
        defined = rng.random() < 0.5
        base = rand_defined_payload(rng) if defined else rand_unknown_payload(rng, rng.randint(2, 60))
        if len(base) > 1014:
            base, defined = rand_unknown_payload(rng, 20), False
        tgt = rng.choice(STEER_TARGETS)
        if rng.random() < 0.25 and len(base) > 8:
            # ... and the SAME three bytes also occur inside the payload (a payload that contains its own checksum):
            # in the padding behind the last field of a defined message, anywhere in an unknown-type payload
            tgt = rng.getrandbits(24) | 0x010101
            if defined:
                base = base + tgt.to_bytes(3, "big")
            else:
                k_ = rng.randrange(3, len(base) - 3)
                base = base[:k_] + tgt.to_bytes(3, "big") + base[k_ + 3:]
        p = steer_payload(base, tgt)
    elif kind == "defined":
        p = rand_defined_payload(rng)
    elif kind == "defmax":
        p = rand_defined_payload(rng, cstrat="max", vstrat="random")
    elif kind == "unknown":
        p = rand_unknown_payload(rng)
    elif kind == "len0":
        p = b""
    elif kind == "len1":
        p = bytes([rng.getrandbits(8)])
    elif kind == "len2-4076":  # IGS family header without its sub-type byte: carries no complete identity
        p = bytes([0xFE, 0xC0 | rng.getrandbits(4)])
    elif kind == "len2-fe":  # two-byte payloads of the numbers 4064..4079 other than 4076 (they share the first byte)
        p = bytes([0xFE, (rng.choice([x for x in range(16) if x != 0xC]) << 4) | rng.getrandbits(4)])
    else:
        ln = int(kind[3:])
        p = rand_unknown_payload(rng, ln) if rng.random() < 0.7 else pad_payload(
            rand_defined_payload(rng, cstrat="zero"), ln, rng)
        if len(p) != ln:  # never truncate a defined message: that is not a valid frame of its type
            p = rand_unknown_payload(rng, ln)
    return refcrc.frame(p), p, kind


def has_msgnum(payload: bytes) -> bool:
    """Does the payload carry a message number (>=2 bytes; >=3 for the 4076 family)?"""
    if len(payload) < 2:
        return False
    if (payload[0] << 4 | payload[1] >> 4) == 4076 and len(payload) < 3:
        return False
    return True


def nmea(rng, maxlen=70, sloppy=False) -> bytes:
    """sloppy=True: sentences as careless talkers write them (non-hex or wrong checksum characters, CR CR LF)."""
    body = "".join(chr(rng.randint(0x20, 0x7E)) for _ in range(rng.randint(0, maxlen)))
    body = body.replace("\r", "x")
    s = "$" + rng.choice(NMEA_SECOND) + body
    ck = 0
    for c in s[1:]:
        ck ^= ord(c)
    if sloppy and rng.random() < 0.6:
        tail = rng.choice(("*G7", "*7_", "*0x", "*ZZ", "* 1", f"*{ck ^ 0x5A:02X}", "*", ""))
        return (s + tail + rng.choice(("\r\n", "\r\r\n", "\n"))).encode("ascii")
    return (s + f"*{ck:02X}\r\n").encode("ascii")


def ubx(rng, maxlen=300, dense=False) -> bytes:
    ln = rng.choice((0, 1, 2, 8, 36, rng.randint(0, maxlen)))
    if dense:
        body = bytes(rng.choice((0xD3, 0xB5, 0x24, 0x62, 0x00, 0x0A, 0x0D, rng.getrandbits(8)))
                     for _ in range(ln))
    else:
        body = bytes(rng.getrandbits(8) for _ in range(ln))
    msg = bytes([rng.getrandbits(8), rng.getrandbits(8)]) + ln.to_bytes(2, "little") + body
    a = b = 0
    for x in msg:
        a = (a + x) & 0xFF
        b = (b + a) & 0xFF
    return b"\xb5\x62" + msg + bytes([a, b])


def ubx_quote(rng) -> bytes:
    """UBX frame of 256..900 payload bytes that QUOTES RTCM material (a receiver's pass-through / log message): a
    complete valid frame, a frame with its checksum overwritten, a bare frame header. All of it is UBX payload."""
    inner = refcrc.frame(rand_unknown_payload(rng, rng.randint(2, 40)))
    style = rng.randrange(3)
    if style == 1:
        inner = inner[:-3] + bytes(x ^ 0x5A for x in inner[-3:])
    elif style == 2:
        inner = inner[:3 + rng.randint(0, 4)]
    body = rng.randbytes(rng.randint(256, 800)) + inner + rng.randbytes(rng.randint(0, 60))
    msg = bytes([rng.getrandbits(8), rng.getrandbits(8)]) + len(body).to_bytes(2, "little") + body
    a = b = 0
    for x in msg:
        a = (a + x) & 0xFF
        b = (b + a) & 0xFF
    return b"\xb5\x62" + msg + bytes([a, b])


def ubx_big(rng) -> bytes:
    """UBX frame with a payload of 4097..20000 bytes whose tail is dense in sync-like material."""
    ln = rng.choice((4097, 4100, 5000, 8192, 20000, rng.randint(4097, 12000), 32767, 32768, 65534, 65535))
    body = bytearray(rng.randbytes(ln))
    tail = rng.choice((b"\xd3\x03\xff", b"$GNGGA,", b"\xb5\x62\x01\x02\xff\x0f", b"\xd3\x00\x40", b"$P"))
    pos = ln - len(tail) - rng.randint(0, 12)
    body[pos:pos + len(tail)] = tail
    msg = bytes([rng.getrandbits(8), rng.getrandbits(8)]) + ln.to_bytes(2, "little") + bytes(body)
    a = b = 0
    for x in msg:
        a = (a + x) & 0xFF
        b = (b + a) & 0xFF
    return b"\xb5\x62" + msg + bytes([a, b])


def inert_noise(rng, maxlen=40) -> bytes:
    return bytes(rng.choice(INERT) for _ in range(rng.randint(1, maxlen)))


def hostile_noise(rng, maxlen=40) -> bytes:
    pool = (0xD3, 0xD3, 0xB5, 0x24, 0x62, 0x00, 0x01, 0x02, 0x03, 0x47, 0x0A, 0x0D)
    return bytes(rng.choice(pool) if rng.random() < 0.8 else rng.getrandbits(8)
                 for _ in range(rng.randint(1, maxlen)))


GREETINGS = (b"ICY 200 OK\r\n", b"ICY 200 OK\r\n\r\n", b"HTTP/1.1 200 OK\r\nNtrip-Version: Ntrip/2.0\r\nContent-Type: gnss/data"
             b"\r\n\r\n", b"SOURCETABLE 200 OK\r\n", b"HTTP/1.0 200 OK\r\n", b"ICY 200 OK\r\nServer: NTRIP Caster 2.0\r\n")


def greeting(rng) -> bytes:
    """What an NTRIP caster sends before the data (contains none of the three sync characters: legal noise)."""
    return rng.choice(GREETINGS)


def pseudo_frame(rng) -> bytes:
    """CRC-valid 'frame' that is NOT a well-formed RTCM3 frame: reserved bits set, a wide length field, or a foreign
    lead byte (0xB5 / 0x24 instead of the preamble) in front of an otherwise consistent block."""
    if rng.random() < 0.25:
        p = rand_unknown_payload(rng, rng.randint(2, 30))
        lead = rng.choice((0xB5, 0x24, 0xB5, 0x24, 0xD2, 0x53))
        body = bytes([lead, len(p) >> 8, len(p) & 0xFF]) + p
        return body + refcrc.crc_ref2(body).to_bytes(3, "big")
    if rng.random() < 0.5:
        # length taken over more than 10 bits: the enclosed size matches the WIDE reading
        hi = rng.choice((0x04, 0x04, 0x05, 0x06, 0x07, 0x08, 0x10))
        size = (hi << 8) | rng.getrandbits(8)
        p = rand_unknown_payload(rng, size)
        body = b"\xd3" + bytes([hi, size & 0xFF]) + p
        return body + refcrc.crc_ref2(body).to_bytes(3, "big")
    p = rand_unknown_payload(rng, rng.randint(2, 30))
    res = rng.randint(1, 63) << 2
    body = b"\xd3" + bytes([res | (len(p) >> 8), len(p) & 0xFF]) + p
    return body + refcrc.crc_ref2(body).to_bytes(3, "big")


# ------------------------------------------------------------------ damage (guaranteed-detectable)
def damage_positions(rng, nbits_total, lo_bit, cls=None):
    """Choose bit positions to flip inside [lo_bit, nbits_total) from a guaranteed-detectable class.

    Classes: single bit; two bits (frame far shorter than 2^23-1 bits); odd number of bits
    (generator has factor x+1); burst of <= 24 bits (first and last flipped, interior random).
    """
    span = nbits_total - lo_bit
    if cls is None:
        cls = rng.choice(("single", "double", "odd3", "odd", "burst", "syndrome"))
    if cls == "syndrome" and span >= 24 and nbits_total % 8 == 0:
        # burst (<= 24 bits) whose CRC residue is a single bit / low-weight pattern
        k = rng.choice((lo_bit, nbits_total - 24, rng.randrange(lo_bit, nbits_total - 23)))
        target = rng.choice([1 << i for i in range(24)] + [0xF, 0xFF, 3, 0x800001] + [0xFFFFFF] * 6
                            + [0xFFFFFE, 0x7FFFFF, 0xFFFF00, 0x00FFFF, 0xFF0000, 0x864CFB, 0x010000])
        pos = syndrome_burst(nbits_total // 8, k, target)
        if pos:
            return "syndrome", list(pos)
        cls = "burst"
    elif cls == "syndrome":
        cls = "burst"
    if cls == "single" or span < 2:
        return cls, [rng.randrange(lo_bit, nbits_total)]
    if cls == "double":
        return cls, sorted(rng.sample(range(lo_bit, nbits_total), 2))
    if cls == "odd3":
        return cls, sorted(rng.sample(range(lo_bit, nbits_total), min(3, span if span % 2 else span - 1)))
    if cls == "odd":
        k = rng.choice((3, 5, 7, 9, 11, 13, 15))
        k = min(k, span if span % 2 else span - 1)
        return cls, sorted(rng.sample(range(lo_bit, nbits_total), k))
    # burst
    blen = rng.randint(2, min(24, span))
    start = rng.randrange(lo_bit, nbits_total - blen + 1)
    pos = [start, start + blen - 1]
    for i in range(start + 1, start + blen - 1):
        if rng.random() < 0.5:
            pos.append(i)
    return "burst", sorted(set(pos))


def flip(data: bytes, positions) -> bytes:
    b = bytearray(data)
    for p in positions:
        b[p >> 3] ^= 0x80 >> (p & 7)
    return bytes(b)


def syndrome_burst(L, k, target):
    """Error pattern confined to the 24-bit window at bit offset k of an L-byte frame whose CRC
    syndrome equals `target` (window -> syndrome is a bijection because gcd(x, G) = 1). Such a burst
    (<= 24 bits) is in the guaranteed-detectable class; it defeats any check that ignores residue bits."""
    basis = []
    for j in range(24):
        e = bytearray(L)
        b = k + j
        e[b >> 3] = 0x80 >> (b & 7)
        basis.append(refcrc.crc_ref2(bytes(e)))
    # Gaussian elimination over GF(2): find subset of basis XORing to target
    rows = [(basis[j], 1 << j) for j in range(24)]
    piv = {}
    for val, comb in rows:
        for bit in range(23, -1, -1):
            if not (val >> bit) & 1:
                continue
            if bit in piv:
                val ^= piv[bit][0]
                comb ^= piv[bit][1]
            else:
                piv[bit] = (val, comb)
                break
    val, comb = target, 0
    for bit in range(23, -1, -1):
        if (val >> bit) & 1:
            if bit not in piv:
                return None
            val ^= piv[bit][0]
            comb ^= piv[bit][1]
    return tuple(k + j for j in range(24) if (comb >> j) & 1)


def length_lie(rng):
    """A 'frame' whose length field d differs from the number a of payload bytes actually present,
    with a CRC trailer that is valid for the bytes actually present. Never a well-formed frame."""
    a = rng.randint(2, 40)
    d = rng.choice((a + rng.randint(1, 30), max(0, a - rng.randint(1, a)), a + 1))
    p = rand_unknown_payload(rng, a)
    body = b"\xd3" + bytes([d >> 8, d & 0xFF]) + p
    return body + refcrc.crc_ref2(body).to_bytes(3, "big"), a, d


def crc_collider(frame: bytes, rng):
    """Another CRC-valid frame with the SAME header and trailer but a different payload:
    payload XOR (generator polynomial shifted to a position inside the payload)."""
    nb = (len(frame) - 3) * 8  # bits covered by the CRC
    lo = 24 + 16  # keep header and message number untouched
    if nb - lo < 25:
        return None
    shift = rng.randrange(0, nb - lo - 24)  # position of the pattern's lowest bit above the trailer
    e = refcrc.POLY << shift
    v = int.from_bytes(frame[:-3], "big") ^ e
    out = v.to_bytes(len(frame) - 3, "big") + frame[-3:]
    assert refcrc.crc_ref2(out) == 0 and out[:5] == frame[:5]
    return out


# ------------------------------------------------------------------ representations of the caller's data
class BytesSub(bytes):
    """A bytes subclass (e.g. what some serial / framing layers hand out)."""


REPS = ("bytes", "bytearray", "sub", "mview", "mslice", "mprefix")


def as_rep(kind, b):
    """The same byte string as another buffer type: bytes, bytearray, a bytes subclass, a read-only memoryview,
    or a WRITABLE memoryview that is a proper slice of a larger buffer (foreign bytes on both sides)."""
    b = bytes(b)
    if kind == "bytearray":
        return bytearray(b)
    if kind == "sub":
        return BytesSub(b)
    if kind == "mview":
        return memoryview(b)
    if kind == "mslice":
        return memoryview(bytearray(b"\xd3\x00\x13\x3e\xd0" + b + b"\xd3\x00\x00\x47\xea\x4b" + bytes(40)))[5:5 + len(b)]
    if kind == "mprefix":  # a view of the first len(b) bytes of a longer (zero-filled) receive buffer
        return memoryview(bytearray(b + bytes(256)))[: len(b)]
    return b


def pick_rep(rng, p_bytes=0.6):
    return "bytes" if rng.random() < p_bytes else rng.choice(REPS[1:])


# ------------------------------------------------------------------ CRC steering
_STEER = {}


def steer_payload(prefix: bytes, target: int) -> bytes:
    """prefix + 3 bytes chosen so that the CRC-24Q trailer of the FRAME carrying that payload equals `target`
    (CRC-24Q is linear with zero initial value, so the last 24 message bits map bijectively onto the trailer)."""
    if not _STEER:
        rows = []  # (image, preimage) of the 24 unit vectors
        for i in range(24):
            t = 1 << i
            rows.append([refcrc.crc_ref2(t.to_bytes(3, "big")), t])
        # Gauss-Jordan over GF(2): express every unit image
        inv = {}
        basis = []
        for img, pre in rows:
            for bimg, bpre in basis:
                if img ^ bimg < img:
                    img ^= bimg
                    pre ^= bpre
            if img:
                basis.append((img, pre))
                basis.sort(reverse=True)
        _STEER["basis"] = basis
    n = len(prefix) + 3
    hdr = b"\xd3" + n.to_bytes(2, "big")
    want = refcrc.crc_ref2(hdr + prefix + b"\x00\x00\x00") ^ target
    t = 0
    for bimg, bpre in _STEER["basis"]:
        if want ^ bimg < want:
            want ^= bimg
            t ^= bpre
    if want:
        raise RuntimeError("steering failed")
    out = prefix + t.to_bytes(3, "big")
    assert refcrc.frame(out)[-3:] == target.to_bytes(3, "big")
    return out


def steer_raw(prefix: bytes, target: int) -> bytes:
    """prefix + 3 bytes such that the CRC-24Q remainder of the whole byte string is `target` (no framing)."""
    steer_payload(b"\x00", 0)  # make sure the basis exists
    want = refcrc.crc_ref2(prefix + b"\x00\x00\x00") ^ target
    t = 0
    for bimg, bpre in _STEER["basis"]:
        if want ^ bimg < want:
            want ^= bimg
            t ^= bpre
    out = prefix + t.to_bytes(3, "big")
    assert want == 0 and refcrc.crc_ref2(out) == target
    return out


STEER_TARGETS = (0x000000, 0xFFFFFF, 0x000001, 0x00FFFF, 0x0000FF, 0x0A0D0A, 0x550D0A, 0x12340A, 0x12340D, 0x0D0A00,
                 0xD30000, 0x00D300, 0x1234D3, 0x123424, 0x1234B5, 0xB56200, 0x244700, 0x252525, 0x7B7D25, 0x5C2722,
                 0x800000, 0x0FFFFF, 0x100000)
