"""PINNED bit geometry of RTCM 10403.3 / IGS SSR v1.00 messages. Imports NOTHING from the repository.

Spec tokens:  int n            n opaque bits (random content)
              "I"              12-bit message number
              "S"              IGS: 3-bit SSR version + 8-bit IGS sub-type number
              ("c", w, name[, plus])   w-bit repeat counter (actual repeats = value + plus)
              ("rep", name, [spec])    repeated group
              ("flags", n, name)       n one-bit flags
              ("if", name, i, [spec])  group present iff flag i of `name` is 1
              ("msm", satbits, cellbits)   64-bit satellite mask, 32-bit signal mask, NSat*NSig cell mask,
                                           then NSat*satbits + NCell*cellbits data bits
              ("harm",)        4076_201 layer: 8-bit height, 4-bit degree-1, 4-bit order-1, 16-bit coefficients,
                               nc = (N+1)(N+2)/2 - (N-M)(N-M+1)/2 cosine, nc - (N+1) sine coefficients
Provenance: S = RTCM 10403.3 (2016) / IGS SSR v1.00 as recalled; T = later amendment (post-2016 layouts),
pinned with the same care but flagged so that a legitimate future correction is recognisable.
"""

RTK_GPS_HDR = ["I", 12, 30, 1, ("c", 5, "n"), 1, 3]
RTK_GLO_HDR = ["I", 12, 27, 1, ("c", 5, "n"), 1, 3]
NET_GPS_HDR = ["I", 8, 4, 23, 1, 12, 12, ("c", 4, "n")]
NET_GLO_HDR = ["I", 8, 4, 20, 1, 12, 12, ("c", 4, "n")]
SSR_GPS_A = ["I", 20, 4, 1, 1, 4, 16, 4, ("c", 6, "n")]  # with satellite reference datum (orbit msgs)
SSR_GPS_B = ["I", 20, 4, 1, 4, 16, 4, ("c", 6, "n")]
SSR_GLO_A = ["I", 17, 4, 1, 1, 4, 16, 4, ("c", 6, "n")]
SSR_GLO_B = ["I", 17, 4, 1, 4, 16, 4, ("c", 6, "n")]
IGS_A = ["I", "S", 20, 4, 1, 4, 16, 4, 1, ("c", 6, "n")]  # with CRS indicator
IGS_B = ["I", "S", 20, 4, 1, 4, 16, 4, ("c", 6, "n")]
MSM_HDR = ["I", 12, 30, 1, 3, 7, 2, 2, 1, 3]

SPEC = {
    "1001": RTK_GPS_HDR + [("rep", "n", [58])],
    "1002": RTK_GPS_HDR + [("rep", "n", [74])],
    "1003": RTK_GPS_HDR + [("rep", "n", [101])],
    "1004": RTK_GPS_HDR + [("rep", "n", [125])],
    "1005": ["I", 140],
    "1006": ["I", 156],
    "1007": ["I", 12, ("c", 8, "n"), ("rep", "n", [8]), 8],
    "1008": ["I", 12, ("c", 8, "n"), ("rep", "n", [8]), 8, ("c", 8, "m"), ("rep", "m", [8])],
    "1009": RTK_GLO_HDR + [("rep", "n", [64])],
    "1010": RTK_GLO_HDR + [("rep", "n", [79])],
    "1011": RTK_GLO_HDR + [("rep", "n", [107])],
    "1012": RTK_GLO_HDR + [("rep", "n", [130])],
    "1013": ["I", 12, 16, 17, ("c", 5, "n"), 8, ("rep", "n", [29])],
    "1014": ["I", 105],
    "1015": NET_GPS_HDR + [("rep", "n", [28])],
    "1016": NET_GPS_HDR + [("rep", "n", [36])],
    "1017": NET_GPS_HDR + [("rep", "n", [53])],
    "1019": ["I", 476],
    "1020": ["I", 348],
    "1021": ["I", ("c", 5, "n"), ("rep", "n", [8]), ("c", 5, "m"), ("rep", "m", [8]), 390],
    "1022": ["I", ("c", 5, "n"), ("rep", "n", [8]), ("c", 5, "m"), ("rep", "m", [8]), 495],
    "1023": ["I", 566],
    "1024": ["I", 578],
    "1025": ["I", 184],
    "1026": ["I", 222],
    "1027": ["I", 246],
    "1029": ["I", 12, 16, 17, 7, ("c", 8, "n"), ("rep", "n", [8])],
    "1030": ["I", 20, 12, 7, ("c", 5, "n"), ("rep", "n", [49])],
    "1031": ["I", 17, 12, 7, ("c", 5, "n"), ("rep", "n", [49])],
    "1032": ["I", 144],
    "1033": ["I", 12, ("c", 8, "n"), ("rep", "n", [8]), 8, ("c", 8, "m"), ("rep", "m", [8]),
             ("c", 8, "i"), ("rep", "i", [8]), ("c", 8, "j"), ("rep", "j", [8]), ("c", 8, "k"), ("rep", "k", [8])],
    "1034": ["I", 12, 20, ("c", 5, "n"), ("rep", "n", [66])],
    "1035": ["I", 12, 17, ("c", 5, "n"), ("rep", "n", [66])],
    "1037": NET_GLO_HDR + [("rep", "n", [28])],
    "1038": NET_GLO_HDR + [("rep", "n", [36])],
    "1039": NET_GLO_HDR + [("rep", "n", [53])],
    "1041": ["I", 470],
    "1042": ["I", 499],
    "1044": ["I", 473],
    "1045": ["I", 484],
    "1046": ["I", 492],
    "1057": SSR_GPS_A + [("rep", "n", [135])],
    "1058": SSR_GPS_B + [("rep", "n", [76])],
    "1059": SSR_GPS_B + [("rep", "n", [6, ("c", 5, "b"), ("rep", "b", [19])])],
    "1060": SSR_GPS_A + [("rep", "n", [205])],
    "1061": SSR_GPS_B + [("rep", "n", [12])],
    "1062": SSR_GPS_B + [("rep", "n", [28])],
    "1063": SSR_GLO_A + [("rep", "n", [134])],
    "1064": SSR_GLO_B + [("rep", "n", [75])],
    "1065": SSR_GLO_B + [("rep", "n", [5, ("c", 5, "b"), ("rep", "b", [19])])],
    "1066": SSR_GLO_A + [("rep", "n", [204])],
    "1067": SSR_GLO_B + [("rep", "n", [11])],
    "1068": SSR_GLO_B + [("rep", "n", [27])],
    "1230": ["I", 12, 1, 3, ("flags", 4, "f"), ("if", "f", 0, [16]), ("if", "f", 1, [16]), ("if", "f", 2, [16]),
             ("if", "f", 3, [16])],
    "4076_201": ["I", "S", 20, 4, 1, 4, 16, 4, 9, ("c", 2, "layers", 1), ("rep", "layers", [("harm",)])],
}
PROVENANCE = {k: "S" for k in SPEC}

# later-amendment layouts (provenance T)
SPEC.update({
    "1300": ["I", ("c", 5, "n"), ("rep", "n", [8]), 16],
    "1301": ["I", ("c", 5, "n"), ("rep", "n", [8]), ("c", 5, "m"), ("rep", "m", [8]), 340],
    "1302": ["I", ("c", 5, "n"), ("rep", "n", [8]), 1, 5, ("c", 3, "l"), ("rep", "l", [("c", 5, "k"), ("rep", "k", [8])])],
    "1303": ["I", 20, 12, 7, ("c", 5, "n"), ("rep", "n", [49])],
    "1304": ["I", 20, 12, 7, ("c", 5, "n"), ("rep", "n", [49])],
    "1305": ["I", 20, 12, 7, ("c", 5, "n"), ("rep", "n", [47])],
})
for _k in ("1300", "1301", "1302", "1303", "1304", "1305"):
    PROVENANCE[_k] = "T"

MSM_SATBITS = {1: 10, 2: 10, 3: 10, 4: 18, 5: 36, 6: 18, 7: 36}
MSM_CELLBITS = {1: 15, 2: 27, 3: 42, 4: 48, 5: 63, 6: 65, 7: 80}
for _c in range(107, 114):
    for _k in range(1, 8):
        SPEC[f"{_c}{_k}"] = MSM_HDR + [("msm", MSM_SATBITS[_k], MSM_CELLBITS[_k])]
        PROVENANCE[f"{_c}{_k}"] = "S" if _c != 113 else "T"

IGS_BLOCKS = {1: [135], 2: [76], 3: [205], 4: [28], 5: [6, ("c", 5, "b"), ("rep", "b", [19])],
              6: [6, ("c", 5, "b"), 9, 8, ("rep", "b", [32])], 7: [12]}
for _base in (20, 40, 60, 80, 100, 120):
    for _k in range(1, 8):
        if _k in (1, 3):
            hdr = IGS_A
        elif _k == 6:
            hdr = ["I", "S", 20, 4, 1, 4, 16, 4, 1, 1, ("c", 6, "n")]
        else:
            hdr = IGS_B
        SPEC[f"4076_{_base + _k:03d}"] = hdr + [("rep", "n", IGS_BLOCKS[_k])]
        PROVENANCE[f"4076_{_base + _k:03d}"] = "S"


def harm_counts(n, m):
    nc = (n + 1) * (n + 2) // 2 - (n - m) * (n - m + 1) // 2
    return nc, nc - (n + 1)


class Gen:
    """Generates a random payload of exactly the standard's length for given count choices."""

    def __init__(self, identity, rng, cstrat="random", cap=None):
        self.identity = identity
        self.rng = rng
        self.cstrat = cstrat
        self.cap = cap
        self.val = 0
        self.n = 0
        self.counts = {}
        self.flags = {}
        self.chosen = []  # (name, value)

    def put(self, v, w):
        self.val = (self.val << w) | v
        self.n += w

    def rnd(self, w):
        self.put(self.rng.getrandbits(w) if w else 0, w)

    def count(self, w, plus):
        mx = (1 << w) - 1
        s = self.cstrat
        v = 0 if s == "zero" else min(1, mx) if s == "one" else mx if s == "max" else (
            self.rng.randint(0, min(3, mx)) if s == "small" else self.rng.randint(min(1, mx), min(3, mx))
            if s == "related" else self.rng.randint(0, mx))
        if self.cap is not None:
            v = min(v, self.cap)
        return v

    def walk(self, spec):
        rng = self.rng
        for t in spec:
            if isinstance(t, int):
                self.rnd(t)
            elif t == "I":
                self.put(int(self.identity[:4]), 12)
            elif t == "S":
                self.rnd(3)
                self.put(int(self.identity[5:]), 8)
            elif t[0] == "c":
                v = self.count(t[1], 0)
                self.put(v, t[1])
                self.counts[t[2]] = v + (t[3] if len(t) > 3 else 0)
                self.chosen.append((t[2], v))
            elif t[0] == "rep":
                for _ in range(self.counts[t[1]]):
                    self.walk(t[2])
            elif t[0] == "flags":
                fl = [rng.getrandbits(1) if self.cstrat not in ("zero", "max") else (0 if self.cstrat == "zero" else 1)
                      for _ in range(t[1])]
                for b in fl:
                    self.put(b, 1)
                self.flags[t[2]] = fl
                self.chosen.append((t[2], fl))
            elif t[0] == "if":
                if self.flags[t[1]][t[2]]:
                    self.walk(t[3])
            elif t[0] == "msm":
                s = self.cstrat
                if s == "zero":
                    nsat = nsig = 0
                elif s == "one":
                    nsat = nsig = 1
                elif s == "max":
                    nsig = rng.choice((1, 2, 4, 8, 16, 32))
                    nsat = 64 // nsig
                else:
                    nsat = rng.randint(0, 64)
                    nsig = rng.randint(0, min(32, 64 // nsat)) if nsat else rng.randint(0, 32)
                sat = sum(1 << b for b in rng.sample(range(64), nsat))
                sig = sum(1 << b for b in rng.sample(range(32), nsig))
                self.put(sat, 64)
                self.put(sig, 32)
                w = nsat * nsig
                cm = rng.getrandbits(w) if w else 0
                if s == "max" and w:
                    cm = (1 << w) - 1
                self.put(cm, w)
                ncell = bin(cm).count("1")
                self.rnd(nsat * t[1])
                self.rnd(ncell * t[2])
                self.chosen.append(("msm", (nsat, nsig, ncell)))
            elif t[0] == "harm":
                self.rnd(8)
                n_1 = rng.randint(0, 15) if self.cstrat != "zero" else 0
                if self.cstrat == "max":
                    n_1 = 15
                if self.cap is not None:
                    n_1 = min(n_1, self.cap)
                m_1 = rng.randint(0, n_1) if self.cstrat != "max" else n_1
                if self.cstrat == "related":
                    # layers RELATED to the one before: another (degree, order) with the SAME number of cosine
                    # coefficients (and so a different number of sine coefficients), or the same degree
                    prev = getattr(self, "_prev_harm", None)
                    if prev is None:
                        n_1 = rng.randint(1, 7)
                        m_1 = rng.randint(0, n_1)
                    else:
                        pn, pm = prev
                        pc = harm_counts(pn, pm)[0]
                        cands = [(a, b) for a in range(1, 17) for b in range(1, a + 1)
                                 if (a, b) != (pn, pm) and (harm_counts(a, b)[0] == pc or (a == pn and rng.random() < 0.2))]
                        if cands:
                            a, b = rng.choice(cands)
                            n_1, m_1 = a - 1, b - 1
                    self._prev_harm = (n_1 + 1, m_1 + 1)
                self.put(n_1, 4)
                self.put(m_1, 4)
                nc, ns = harm_counts(n_1 + 1, m_1 + 1)
                self.rnd(16 * (nc + ns))
                self.chosen.append(("harm", (n_1 + 1, m_1 + 1, nc, ns)))
            else:
                raise ValueError(t)


def generate(identity, rng, cstrat="random"):
    """Returns (nbits, bits_as_int, chosen). Shrinks counters until the payload fits 1023 bytes."""
    cap = None
    state = rng.getstate()
    for _ in range(60):
        rng.setstate(state)
        g = Gen(identity, rng, cstrat, cap)
        g.walk(SPEC[identity])
        if g.n <= 1023 * 8 - 8:
            return g.n, g.val, g.chosen
        cap = 255 if cap is None else (int(cap * 0.8) if cap > 4 else cap - 1)
        if cap < 0:
            break
    raise RuntimeError("cannot fit " + identity)


def to_payload(nbits, val, padbits):
    """Payload bytes = the nbits of the message followed by the given pad bits (int, width chosen
    so that the total is a whole number of bytes and at least one pad bit exists)."""
    total = ((nbits + 1 + 7) // 8) * 8
    pw = total - nbits
    v = (val << pw) | (padbits & ((1 << pw) - 1))
    return v.to_bytes(total // 8, "big"), pw
