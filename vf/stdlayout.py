"""PINNED field-level layouts (names, order, widths, number representation, resolution) of the most used
RTCM 10403.3 / IGS SSR v1.00 messages, written from the standards - nothing is imported from the repository.

The dictionaries use the same small grammar as the library's own definitions so that the independent
reference encoder (vf.refmodel.Builder) can walk them:  name -> ""  is a field,
name -> (counter | int | (flag, value), {..}) is a repeated / conditional group.
Field table: name -> (kind, width, resolution, ""), kind in UINT / INT / SNT / BIT / CHA / STR and the derived
label kinds PRN / CPR / CSG (library-specific attributes whose values are C09's subject).
resolution None means "not pinned": only sign and zero-ness of the decoded value are compared there.
Names of reserved bits (DF001_n) and of the per-flag mask bits (DF422_n) follow the library's convention.
"""

P2 = lambda n: 2.0 ** n  # noqa: E731

F = {
    "DF001_1": ("BIT", 1, 0), "DF001_3": ("BIT", 3, 0), "DF001_7": ("BIT", 7, 0),
    "DF002": ("UINT", 12, 1), "DF003": ("UINT", 12, 1), "DF004": ("UINT", 30, 1), "DF005": ("BIT", 1, 0),
    "DF006": ("UINT", 5, 1), "DF007": ("BIT", 1, 0), "DF008": ("BIT", 3, 0),
    "DF009": ("UINT", 6, 1), "DF010": ("BIT", 1, 0), "DF011": ("UINT", 24, 0.02), "DF012": ("INT", 20, 0.0005),
    "DF013": ("UINT", 7, 1), "DF014": ("UINT", 8, None), "DF015": ("UINT", 8, 0.25), "DF016": ("BIT", 2, 0),
    "DF017": ("INT", 14, 0.02), "DF018": ("INT", 20, 0.0005), "DF019": ("UINT", 7, 1), "DF020": ("UINT", 8, 0.25),
    "DF021": ("UINT", 6, 1), "DF022": ("BIT", 1, 0), "DF023": ("BIT", 1, 0), "DF024": ("BIT", 1, 0),
    "DF025": ("INT", 38, 0.0001), "DF026": ("INT", 38, 0.0001), "DF027": ("INT", 38, 0.0001),
    "DF028": ("UINT", 16, 0.0001), "DF029": ("UINT", 8, 1), "DF030": ("CHA", 8, 0), "DF031": ("UINT", 8, 1),
    "DF032": ("UINT", 8, 1), "DF033": ("CHA", 8, 0),
    "DF034": ("UINT", 27, 1), "DF035": ("UINT", 5, 1), "DF036": ("BIT", 1, 0), "DF037": ("BIT", 3, 0),
    "DF038": ("UINT", 6, 1), "DF039": ("BIT", 1, 0), "DF040": ("UINT", 5, 1), "DF041": ("UINT", 25, 0.02),
    "DF042": ("INT", 20, 0.0005), "DF043": ("UINT", 7, 1), "DF044": ("UINT", 7, None),
    "DF045": ("UINT", 8, 0.25), "DF046": ("BIT", 2, 0), "DF047": ("INT", 14, 0.02), "DF048": ("INT", 20, 0.0005),
    "DF049": ("UINT", 7, 1), "DF050": ("UINT", 8, 0.25),
    "DF051": ("UINT", 16, 1), "DF052": ("UINT", 17, 1),
    "DF068": ("UINT", 6, 1), "DF071": ("UINT", 8, None),
    # GPS ephemeris 1019
    "DF076": ("UINT", 10, 1), "DF077": ("UINT", 4, None), "DF078": ("BIT", 2, 0), "DF079": ("INT", 14, P2(-43)),
    "DF081": ("UINT", 16, 16), "DF082": ("INT", 8, P2(-55)), "DF083": ("INT", 16, P2(-43)),
    "DF084": ("INT", 22, P2(-31)), "DF085": ("UINT", 10, 1), "DF086": ("INT", 16, P2(-5)),
    "DF087": ("INT", 16, P2(-43)), "DF088": ("INT", 32, P2(-31)), "DF089": ("INT", 16, P2(-29)),
    "DF090": ("UINT", 32, P2(-33)), "DF091": ("INT", 16, P2(-29)), "DF092": ("UINT", 32, P2(-19)),
    "DF093": ("UINT", 16, 16), "DF094": ("INT", 16, P2(-29)), "DF095": ("INT", 32, P2(-31)),
    "DF096": ("INT", 16, P2(-29)), "DF097": ("INT", 32, P2(-31)), "DF098": ("INT", 16, P2(-5)),
    "DF099": ("INT", 32, P2(-31)), "DF100": ("INT", 24, P2(-43)), "DF101": ("INT", 8, P2(-31)),
    "DF102": ("UINT", 6, None), "DF103": ("BIT", 1, 0), "DF137": ("BIT", 1, 0),
    "DF138": ("UINT", 7, 1), "DF139": ("UINT", 8, 1), "DF140": ("STR", 8, 0),
    "DF141": ("BIT", 1, 0), "DF142": ("BIT", 1, 0), "DF364": ("BIT", 2, 0),
    "DF227": ("UINT", 8, 1), "DF228": ("CHA", 8, 0), "DF229": ("UINT", 8, 1), "DF230": ("CHA", 8, 0),
    "DF231": ("UINT", 8, 1), "DF232": ("CHA", 8, 0),
    "DF248": ("UINT", 30, 1),
    # SSR
    "DF365": ("INT", 22, 0.1), "DF366": ("INT", 20, 0.4), "DF367": ("INT", 20, 0.4), "DF368": ("INT", 21, 0.001),
    "DF369": ("INT", 19, 0.004), "DF370": ("INT", 19, 0.004), "DF375": ("BIT", 1, 0),
    "DF376": ("INT", 22, 0.1), "DF377": ("INT", 21, 0.001), "DF378": ("INT", 27, 0.00002),
    "DF379": ("UINT", 5, 1), "DF380": ("UINT", 5, None), "DF381": ("UINT", 5, None), "DF383": ("INT", 14, 0.01),
    "DF384": ("UINT", 5, 1), "DF385": ("UINT", 20, 1), "DF386": ("UINT", 17, 1), "DF387": ("UINT", 6, 1),
    "DF388": ("BIT", 1, 0), "DF389": ("BIT", 6, 0), "DF390": ("INT", 22, 0.1), "DF391": ("BIT", 4, 0),
    "DF392": ("BIT", 8, 0), "DF413": ("UINT", 4, 1), "DF414": ("UINT", 16, 1), "DF415": ("UINT", 4, 1),
    # MSM
    "DF393": ("BIT", 1, 0), "DF394": ("BIT", 64, 0), "DF395": ("BIT", 32, 0), "DF396": ("BITX", 0, 0),
    "DF397": ("UINT", 8, 1), "DF398": ("UINT", 10, P2(-10)), "DF399": ("INT", 14, 1),
    "DF400": ("INT", 15, P2(-24)), "DF401": ("INT", 22, P2(-29)), "DF402": ("UINT", 4, 1), "DF403": ("UINT", 6, 1),
    "DF404": ("INT", 15, 0.0001), "DF405": ("INT", 20, P2(-29)), "DF406": ("INT", 24, P2(-31)),
    "DF407": ("UINT", 10, 1), "DF408": ("UINT", 10, P2(-4)), "DF409": ("UINT", 3, 1), "DF411": ("UINT", 2, 1),
    "DF412": ("UINT", 2, 1), "DF416": ("UINT", 3, 1), "DF417": ("BIT", 1, 0), "DF418": ("BIT", 3, 0),
    "DF419": ("UINT", 4, 1), "DF420": ("BIT", 1, 0), "ExtSatInfo": ("UINT", 4, 1),
    "DF427": ("UINT", 30, 1), "DF428": ("UINT", 30, 1), "DF546": ("UINT", 30, 1),
    "PRN": ("PRN", 0, 0), "CELLPRN": ("CPR", 0, 0), "CELLSIG": ("CSG", 0, 0),
    # GLONASS code-phase biases 1230
    "DF421": ("BIT", 1, 0), "DF422_1": ("BIT", 1, 0), "DF422_2": ("BIT", 1, 0), "DF422_3": ("BIT", 1, 0),
    "DF422_4": ("BIT", 1, 0), "DF423": ("INT", 16, 0.02), "DF424": ("INT", 16, 0.02), "DF425": ("INT", 16, 0.02),
    "DF426": ("INT", 16, 0.02),
    # IGS SSR
    "IDF001": ("UINT", 3, 1), "IDF002": ("UINT", 8, 1), "IDF003": ("UINT", 20, 1), "IDF004": ("BIT", 4, 0),
    "IDF005": ("BIT", 1, 0), "IDF006": ("BIT", 1, 0), "IDF007": ("UINT", 4, 1), "IDF008": ("UINT", 16, 1),
    "IDF009": ("UINT", 4, 1), "IDF010": ("UINT", 6, 1), "IDF011": ("UINT", 6, 1), "IDF012": ("UINT", 8, None),
    "IDF013": ("INT", 22, 0.1), "IDF014": ("INT", 20, 0.4), "IDF015": ("INT", 20, 0.4), "IDF016": ("INT", 21, 0.001),
    "IDF017": ("INT", 19, 0.004), "IDF018": ("INT", 19, 0.004), "IDF019": ("INT", 22, 0.1),
    "IDF020": ("INT", 21, 0.001), "IDF021": ("INT", 27, 0.00002), "IDF022": ("INT", 22, 0.1),
    "IDF023": ("UINT", 5, 1), "IDF024": ("UINT", 5, None), "IDF025": ("INT", 14, 0.01),
    "IDF026": ("UINT", 9, None), "IDF027": ("INT", 8, None), "IDF028": ("INT", 20, 0.0001),
    "IDF029": ("BIT", 1, 0), "IDF030": ("BIT", 2, 0), "IDF031": ("UINT", 4, 1), "IDF032": ("BIT", 1, 0),
    "IDF033": ("BIT", 1, 0), "IDF034": ("BIT", 6, 0), "IDF035": ("UINT", 2, 1), "IDF036": ("UINT", 8, 10),
    "IDF037": ("UINT", 4, 1), "IDF038": ("UINT", 4, 1), "IDF039": ("INT", 16, 0.005), "IDF040": ("INT", 16, 0.005),
    "IDF041": ("UINT", 9, 0.05),
}
F.update({
    # system parameters 1013
    "DF053": ("UINT", 5, 1), "DF054": ("UINT", 8, None), "DF055": ("UINT", 12, 1), "DF056": ("BIT", 1, 0),
    "DF057": ("UINT", 16, None),
    # network RTK corrections 1015-1017 / 1037-1039
    "DF059": ("UINT", 8, 1), "DF060": ("UINT", 12, 1), "DF061": ("UINT", 12, 1), "DF065": ("UINT", 23, None),
    "DF066": ("BIT", 1, 0), "DF067": ("UINT", 4, 1), "DF069": ("INT", 17, None), "DF070": ("INT", 17, None),
    "DF072": ("UINT", 4, 1), "DF074": ("BIT", 2, 0), "DF075": ("UINT", 3, 1),
    "DF233": ("UINT", 20, None), "DF234": ("UINT", 4, 1), "DF235": ("BIT", 2, 0), "DF236": ("UINT", 3, 1),
    "DF237": ("INT", 17, None), "DF238": ("INT", 17, None), "DF239": ("BIT", 8, 0),
    # network RTK residuals 1030 / 1031 and FKP gradients 1034 / 1035
    "DF218": ("UINT", 8, None), "DF219": ("UINT", 9, None), "DF220": ("UINT", 6, None), "DF221": ("UINT", 10, None),
    "DF222": ("UINT", 10, None), "DF223": ("UINT", 7, 1), "DF224": ("UINT", 20, 1), "DF225": ("UINT", 17, 1),
    "DF240": ("UINT", 20, 1), "DF241": ("UINT", 17, 1), "DF242": ("INT", 12, None), "DF243": ("INT", 12, None),
    "DF244": ("INT", 14, None), "DF245": ("INT", 14, None),
})
F.update({
    # GLONASS ephemeris 1020 (14 sign-magnitude fields)
    "DF104": ("BIT", 1, 0), "DF105": ("BIT", 1, 0), "DF106": ("BIT", 2, 0), "DF107": ("BIT", 12, 0),
    "DF108": ("BIT", 1, 0), "DF109": ("BIT", 1, 0), "DF110": ("UINT", 7, None),
    "DF111": ("SNT", 24, P2(-20)), "DF112": ("SNT", 27, P2(-11)), "DF113": ("SNT", 5, P2(-30)),
    "DF114": ("SNT", 24, P2(-20)), "DF115": ("SNT", 27, P2(-11)), "DF116": ("SNT", 5, P2(-30)),
    "DF117": ("SNT", 24, P2(-20)), "DF118": ("SNT", 27, P2(-11)), "DF119": ("SNT", 5, P2(-30)),
    "DF120": ("BIT", 1, 0), "DF121": ("SNT", 11, None), "DF122": ("BIT", 2, 0), "DF123": ("BIT", 1, 0),
    "DF124": ("SNT", 22, None), "DF125": ("SNT", 5, None), "DF126": ("UINT", 5, 1), "DF127": ("BIT", 1, 0),
    "DF128": ("UINT", 4, None), "DF129": ("UINT", 11, 1), "DF130": ("BIT", 2, 0), "DF131": ("BIT", 1, 0),
    "DF132": ("UINT", 11, 1), "DF133": ("SNT", 32, None), "DF134": ("UINT", 5, 1), "DF135": ("SNT", 22, None),
    "DF136": ("BIT", 1, 0),
    # 1014 network auxiliary station data, 1032 physical reference station position
    "DF058": ("UINT", 5, 1), "DF062": ("INT", 20, None), "DF063": ("INT", 21, None), "DF064": ("INT", 23, None),
    "DF226": ("UINT", 12, 1),
})
F = {k: (v[0], v[1], v[2], "") for k, v in F.items()}


def d(*names):
    return {n: "" for n in names}


HDR_GPS = d("DF002", "DF003", "DF004", "DF005", "DF006", "DF007", "DF008")
HDR_GLO = d("DF002", "DF003", "DF034", "DF005", "DF035", "DF036", "DF037")
L1_GPS = ("DF009", "DF010", "DF011", "DF012", "DF013")
L2_GPS = ("DF016", "DF017", "DF018", "DF019")
L1_GLO = ("DF038", "DF039", "DF040", "DF041", "DF042", "DF043")
L2_GLO = ("DF046", "DF047", "DF048", "DF049")
HDR_1005 = d("DF002", "DF003", "DF021", "DF022", "DF023", "DF024", "DF141", "DF025", "DF142", "DF001_1", "DF026",
             "DF364", "DF027")
SSR_GPS_ORB = d("DF002", "DF385", "DF391", "DF388", "DF375", "DF413", "DF414", "DF415", "DF387")
SSR_GPS = d("DF002", "DF385", "DF391", "DF388", "DF413", "DF414", "DF415", "DF387")
SSR_GLO_ORB = d("DF002", "DF386", "DF391", "DF388", "DF375", "DF413", "DF414", "DF415", "DF387")
SSR_GLO = d("DF002", "DF386", "DF391", "DF388", "DF413", "DF414", "DF415", "DF387")
ORB = ("DF365", "DF366", "DF367", "DF368", "DF369", "DF370")
CLK = ("DF376", "DF377", "DF378")
IGS_HDR = ("DF002", "IDF001", "IDF002", "IDF003", "IDF004", "IDF005", "IDF007", "IDF008", "IDF009")
IORB = ("IDF013", "IDF014", "IDF015", "IDF016", "IDF017", "IDF018")
ICLK = ("IDF019", "IDF020", "IDF021")

LAYOUT = {
    "1001": {**HDR_GPS, "g": ("DF006", d(*L1_GPS))},
    "1002": {**HDR_GPS, "g": ("DF006", d(*L1_GPS, "DF014", "DF015"))},
    "1003": {**HDR_GPS, "g": ("DF006", d(*L1_GPS, *L2_GPS))},
    "1004": {**HDR_GPS, "g": ("DF006", d(*L1_GPS, "DF014", "DF015", *L2_GPS, "DF020"))},
    "1005": HDR_1005,
    "1006": {**HDR_1005, "DF028": ""},
    "1007": {**d("DF002", "DF003", "DF029"), "g": ("DF029", d("DF030")), "DF031": ""},
    "1008": {**d("DF002", "DF003", "DF029"), "g": ("DF029", d("DF030")), "DF031": "", "DF032": "",
             "g2": ("DF032", d("DF033"))},
    "1009": {**HDR_GLO, "g": ("DF035", d(*L1_GLO))},
    "1010": {**HDR_GLO, "g": ("DF035", d(*L1_GLO, "DF044", "DF045"))},
    "1011": {**HDR_GLO, "g": ("DF035", d(*L1_GLO, *L2_GLO))},
    "1012": {**HDR_GLO, "g": ("DF035", d(*L1_GLO, "DF044", "DF045", *L2_GLO, "DF050"))},
    "1019": d("DF002", "DF009", "DF076", "DF077", "DF078", "DF079", "DF071", "DF081", "DF082", "DF083", "DF084",
              "DF085", "DF086", "DF087", "DF088", "DF089", "DF090", "DF091", "DF092", "DF093", "DF094", "DF095",
              "DF096", "DF097", "DF098", "DF099", "DF100", "DF101", "DF102", "DF103", "DF137"),
    "1029": {**d("DF002", "DF003", "DF051", "DF052", "DF138", "DF139"), "g": ("DF139", d("DF140"))},
    "1033": {**d("DF002", "DF003", "DF029"), "g": ("DF029", d("DF030")), "DF031": "", "DF032": "",
             "g2": ("DF032", d("DF033")), "DF227": "", "g3": ("DF227", d("DF228")), "DF229": "",
             "g4": ("DF229", d("DF230")), "DF231": "", "g5": ("DF231", d("DF232"))},
    "1057": {**SSR_GPS_ORB, "g": ("DF387", d("DF068", "DF071", *ORB))},
    "1058": {**SSR_GPS, "g": ("DF387", d("DF068", *CLK))},
    "1059": {**SSR_GPS, "g": ("DF387", {**d("DF068", "DF379"), "b": ("DF379+1", d("DF380", "DF383"))})},
    "1060": {**SSR_GPS_ORB, "g": ("DF387", d("DF068", "DF071", *ORB, *CLK))},
    "1061": {**SSR_GPS, "g": ("DF387", d("DF068", "DF389"))},
    "1062": {**SSR_GPS, "g": ("DF387", d("DF068", "DF390"))},
    "1063": {**SSR_GLO_ORB, "g": ("DF387", d("DF384", "DF392", *ORB))},
    "1064": {**SSR_GLO, "g": ("DF387", d("DF384", *CLK))},
    "1065": {**SSR_GLO, "g": ("DF387", {**d("DF384", "DF379"), "b": ("DF379+1", d("DF381", "DF383"))})},
    "1066": {**SSR_GLO_ORB, "g": ("DF387", d("DF384", "DF392", *ORB, *CLK))},
    "1067": {**SSR_GLO, "g": ("DF387", d("DF384", "DF389"))},
    "1068": {**SSR_GLO, "g": ("DF387", d("DF384", "DF390"))},
    "1230": {**d("DF002", "DF003", "DF421", "DF001_3", "DF422_1", "DF422_2", "DF422_3", "DF422_4"),
             "o1": (("DF422_1", 1), d("DF423")), "o2": (("DF422_2", 1), d("DF424")),
             "o3": (("DF422_3", 1), d("DF425")), "o4": (("DF422_4", 1), d("DF426"))},
}

NET_GPS = d("DF002", "DF059", "DF072", "DF065", "DF066", "DF060", "DF061", "DF067")
NET_GLO = d("DF002", "DF059", "DF072", "DF233", "DF066", "DF060", "DF061", "DF234")
LAYOUT.update({
    "1013": {**d("DF002", "DF003", "DF051", "DF052", "DF053", "DF054"), "g": ("DF053", d("DF055", "DF056", "DF057"))},
    "1015": {**NET_GPS, "g": ("DF067", d("DF068", "DF074", "DF075", "DF069"))},
    "1016": {**NET_GPS, "g": ("DF067", d("DF068", "DF074", "DF075", "DF070", "DF071"))},
    "1017": {**NET_GPS, "g": ("DF067", d("DF068", "DF074", "DF075", "DF070", "DF071", "DF069"))},
    "1037": {**NET_GLO, "g": ("DF234", d("DF038", "DF235", "DF236", "DF237"))},
    "1038": {**NET_GLO, "g": ("DF234", d("DF038", "DF235", "DF236", "DF238", "DF239"))},
    "1039": {**NET_GLO, "g": ("DF234", d("DF038", "DF235", "DF236", "DF238", "DF239", "DF237"))},
    "1030": {**d("DF002", "DF224", "DF003", "DF223", "DF006"),
             "g": ("DF006", d("DF009", "DF218", "DF219", "DF220", "DF221", "DF222"))},
    "1031": {**d("DF002", "DF225", "DF003", "DF223", "DF035"),
             "g": ("DF035", d("DF038", "DF218", "DF219", "DF220", "DF221", "DF222"))},
    "1034": {**d("DF002", "DF003", "DF240", "DF006"),
             "g": ("DF006", d("DF009", "DF071", "DF242", "DF243", "DF244", "DF245"))},
    "1035": {**d("DF002", "DF003", "DF241", "DF035"),
             "g": ("DF035", d("DF038", "DF392", "DF242", "DF243", "DF244", "DF245"))},
})

LAYOUT.update({
    "1014": d("DF002", "DF059", "DF072", "DF058", "DF060", "DF061", "DF062", "DF063", "DF064"),
    "1020": d("DF002", "DF038", "DF040", "DF104", "DF105", "DF106", "DF107", "DF108", "DF109", "DF110", "DF111",
              "DF112", "DF113", "DF114", "DF115", "DF116", "DF117", "DF118", "DF119", "DF120", "DF121", "DF122",
              "DF123", "DF124", "DF125", "DF126", "DF127", "DF128", "DF129", "DF130", "DF131", "DF132", "DF133",
              "DF134", "DF135", "DF136", "DF001_7"),
    "1032": d("DF002", "DF003", "DF226", "DF021", "DF025", "DF026", "DF027"),
})

# ---- MSM: 7 constellations x 7 levels
EPOCH = {"107": ("DF004",), "108": ("DF416", "DF034"), "109": ("DF248",), "110": ("DF004",), "111": ("DF428",),
         "112": ("DF427",), "113": ("DF546",)}
SAT = {1: ("DF398",), 2: ("DF398",), 3: ("DF398",), 4: ("DF397", "DF398"), 6: ("DF397", "DF398"),
       5: ("DF397", "ExtSatInfo", "DF398", "DF399"), 7: ("DF397", "ExtSatInfo", "DF398", "DF399")}
SIG = {1: ("DF400",), 2: ("DF401", "DF402", "DF420"), 3: ("DF400", "DF401", "DF402", "DF420"),
       4: ("DF400", "DF401", "DF402", "DF420", "DF403"), 5: ("DF400", "DF401", "DF402", "DF420", "DF403", "DF404"),
       6: ("DF405", "DF406", "DF407", "DF420", "DF408"), 7: ("DF405", "DF406", "DF407", "DF420", "DF408", "DF404")}
for _pre, _ep in EPOCH.items():
    for _lvl in range(1, 8):
        lay = d("DF002", "DF003", *_ep, "DF393", "DF409", "DF001_7", "DF411", "DF412", "DF417", "DF418", "DF394",
                "DF395", "DF396")
        lay["s0"] = ("NSat", d("PRN"))
        for _i, _f in enumerate(SAT[_lvl]):
            if _f == "ExtSatInfo" and _pre == "108":
                _f = "DF419"  # GLONASS: frequency channel number in place of the extended info
            lay[f"s{_i + 1}"] = ("NSat", d(_f))
        lay["c0"] = ("NCell", d("CELLPRN", "CELLSIG"))
        for _i, _f in enumerate(SIG[_lvl]):
            lay[f"c{_i + 1}"] = ("NCell", d(_f))
        LAYOUT[f"{_pre}{_lvl}"] = lay

# ---- IGS SSR (6 constellations) and VTEC
for _base in (20, 40, 60, 80, 100, 120):
    LAYOUT[f"4076_{_base + 1:03d}"] = {**d(*IGS_HDR, "IDF006", "IDF010"), "g": ("IDF010", d("IDF011", "IDF012", *IORB))}
    LAYOUT[f"4076_{_base + 2:03d}"] = {**d(*IGS_HDR, "IDF010"), "g": ("IDF010", d("IDF011", *ICLK))}
    LAYOUT[f"4076_{_base + 3:03d}"] = {**d(*IGS_HDR, "IDF006", "IDF010"),
                                      "g": ("IDF010", d("IDF011", "IDF012", *IORB, *ICLK))}
    LAYOUT[f"4076_{_base + 4:03d}"] = {**d(*IGS_HDR, "IDF010"), "g": ("IDF010", d("IDF011", "IDF022"))}
    LAYOUT[f"4076_{_base + 5:03d}"] = {**d(*IGS_HDR, "IDF010"),
                                      "g": ("IDF010", {**d("IDF011", "IDF023"), "b": ("IDF023+1", d("IDF024", "IDF025"))})}
    LAYOUT[f"4076_{_base + 6:03d}"] = {**d(*IGS_HDR, "IDF032", "IDF033", "IDF010"),
                                      "g": ("IDF010", {**d("IDF011", "IDF023", "IDF026", "IDF027"),
                                                       "b": ("IDF023+1", d("IDF024", "IDF029", "IDF030", "IDF031", "IDF028"))})}
    LAYOUT[f"4076_{_base + 7:03d}"] = {**d(*IGS_HDR, "IDF010"), "g": ("IDF010", d("IDF011", "IDF034"))}
LAYOUT["4076_201"] = {**d(*IGS_HDR, "IDF041", "IDF035"),
                      "g": ("IDF035", {**d("IDF036", "IDF037", "IDF038"), "c": ("_NHarmCoeffC", d("IDF039")),
                                       "s": ("_NHarmCoeffS", d("IDF040"))})}
