"""Helpers shared by the checks: library error classes, reader drivers, identity arithmetic."""

import glob
import logging
import os

from vf import REPO


def lib_errors():
    from pyrtcm.exceptions import (
        RTCMMessageError,
        RTCMParseError,
        RTCMStreamError,
        RTCMTypeError,
    )

    return (RTCMMessageError, RTCMParseError, RTCMStreamError, RTCMTypeError)


def expected_identity(payload: bytes):
    """Identity string computed from the first payload bytes, independently of the repo."""
    if len(payload) < 2:
        return None
    num = (payload[0] << 4) | (payload[1] >> 4)
    if num == 4076:
        if len(payload) < 3:
            return None
        sub = ((payload[1] & 1) << 7) | (payload[2] >> 1)
        return f"4076_{sub:03d}"
    return str(num)


def msgnum(payload: bytes):
    return (payload[0] << 4) | (payload[1] >> 4)


class LogCapture(logging.Handler):
    """Counts records emitted on the reader's logger (log-mode channel without a handler)."""

    def __init__(self):
        super().__init__(level=logging.DEBUG)
        self.records = []

    def emit(self, record):
        self.records.append(record)


class capture_logs:
    def __init__(self, name="pyrtcm"):
        self.logger = logging.getLogger(name)
        self.h = LogCapture()

    def __enter__(self):
        self.prev_level = self.logger.level
        self.prev_prop = self.logger.propagate
        self.logger.addHandler(self.h)
        self.logger.setLevel(logging.DEBUG)
        self.logger.propagate = False
        return self.h

    def __exit__(self, *a):
        self.logger.removeHandler(self.h)
        self.logger.setLevel(self.prev_level)
        self.logger.propagate = self.prev_prop


def quiet_logging():
    """Keep the library's error log lines off stderr (they are counted where they matter)."""
    lg = logging.getLogger("pyrtcm")
    lg.addHandler(logging.NullHandler())
    lg.propagate = False
    # one worker in three runs with the library's logger at DEBUG and a real formatting handler (into memory): what a
    # deployment with verbose logging executes
    try:
        k = int(os.environ.get("PYTHONHASHSEED", "0") or 0)
    except ValueError:
        k = 0
    if k % 3 == 1 and not getattr(lg, "_vf_debug", False):
        class _FormatSink(logging.Handler):
            """formats every record like a stream handler would, keeps nothing"""

            def emit(self, record):
                try:
                    self.format(record)
                except Exception:
                    self.handleError(record)

        h = _FormatSink()
        h.setFormatter(logging.Formatter("%(asctime)s %(name)s %(levelname)s %(funcName)s %(message)s"))
        lg.addHandler(h)
        lg.setLevel(logging.DEBUG)
        lg._vf_debug = True


def recorded_logs(maxsize=400000):
    """The byte logs shipped with the repository's tests (used as extra realistic streams)."""
    out = []
    for p in sorted(glob.glob(os.path.join(REPO, "tests", "pygpsdata-*"))):
        try:
            with open(p, "rb") as f:
                d = f.read()
        except OSError:
            continue
        if 0 < len(d) <= maxsize:
            out.append((os.path.basename(p), d))
    return out


def split_frames(data: bytes):
    """Greedy scan of a clean log for well-formed RTCM3 frames (own CRC): [(offset, frame)]."""
    from vf import refcrc

    out = []
    i = 0
    n = len(data)
    while i + 6 <= n:
        if data[i] == 0xD3 and data[i + 1] & 0xFC == 0:
            ln = ((data[i + 1] & 3) << 8) | data[i + 2]
            fr = data[i : i + ln + 6]
            if len(fr) == ln + 6 and refcrc.crc_ref2(fr) == 0:
                out.append((i, fr))
                i += ln + 6
                continue
        i += 1
    return out


def greedy_locate(source: bytes, raws, start=0):
    """Earliest non-overlapping in-order occurrences of each raw in source.

    Returns (offsets, None) or (partial_offsets, index_of_first_unmatched).
    """
    offs = []
    pos = start
    for i, raw in enumerate(raws):
        j = source.find(raw, pos)
        if j < 0:
            return offs, i
        offs.append(j)
        pos = j + len(raw)
    return offs, None


_RECFRAMES = []


def recorded_frames(clean_only=True):
    """Distinct well-formed frames found in the repository's recorded logs: [(log name, frame)] (own framing/CRC)."""
    if not _RECFRAMES:
        seen = set()
        for name, data in recorded_logs(4000000):
            if clean_only and "BAD" in name.upper():
                continue
            for off, fr in split_frames(data):
                if fr not in seen:
                    seen.add(fr)
                    _RECFRAMES.append((name, fr))
    return list(_RECFRAMES)
