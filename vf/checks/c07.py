"""C07 - Serialize and parse are mutual inverses and framing is canonical.

Round-trip monitors with framing built independently (vf.refcrc); icontract post-conditions on the
real len2bytes / crc2bytes / calc_crc24q as internal evidence.
"""

from vf import common, monitors, refcrc, refmodel, streams

LEVEL = "exploration"
RULE = (
    "case = payload that parses: unknown message numbers with EVERY payload length 2..1023 (enumeration of the length "
    "field incl. 255/256/511/512/1023), every defined identity at natural length and padded to boundary lengths, "
    "bodies dense in quote/backslash/NUL/non-ASCII bytes (for repr). Relations: serialize() == D3|len16|payload|refCRC; "
    "parse(serialize(m)) == m (payload, identity, attributes); parse(frame).serialize() == frame for independently "
    "built frames; eval(repr(m)).payload == m.payload. distinct = blake2b(payload); non-trivial = payload length > 2"
)
RULE += (
    ' Also: alias families (leading / trailing zero bytes), complete frames used as payloads, MSM shapes'
    ' with satellites x signals = 64 and 63, frames with steered checksum bytes (zeros, CR LF, sync bytes,'
    " '%', leading zero byte ...), payloads as bytearray / bytes subclass, non-canonical sources (wrong"
    ' CRC with validate=0, odd headers), reader round trips over file and multi-segment (also TLS-like)'
    ' sockets; between serialising and parsing back: a refused truncated payload of the same identity, an'
    ' MSM with unrelated masks and the same body under another constellation; repr round trip also for'
    ' labelmsm=2.'
)
RULE += (
    " Also: the reader round trip carries a CRC collider (same length, same checksum bytes) in front of the frame."
)
RULE += (
    " Also: frames laid out from the pinned geometry of all types (vf.stdgeom, random content) must parse and round-trip."
)
ASSUMPTIONS = ["reference CRC (two cross-checked implementations) and own header arithmetic are the oracle"]
GATES = ["pinned_geometry_frames", "reader_roundtrip_behind_collider", "serialize_checked", "reparse_checked", "frame_roundtrip_checked", "repr_checked", "lengths_enumerated",
         "alias_families", "reader_roundtrip_checked", "noncanonical_source_checked", "frame_as_payload",
         "msm_mask_limit_shapes", "steered_checksums"]

NASTY = bytes([0x27, 0x22, 0x5C, 0x00, 0x0A, 0x0D, 0x7F, 0x80, 0xFF, 0x7B, 0x7D, 0x25])


def parses(payload):
    from pyrtcm import RTCMReader

    try:
        RTCMReader.parse(refcrc.frame(payload))
        return True
    except Exception:
        return False


_FLUSH = []


def _flush_payload():
    if not _FLUSH:
        import random

        _FLUSH.append(refmodel.build("1124", random.Random(7), "random", "small", "random",
                                     force={"DF394": 1 << 62, "DF395": 1 << 30, "DF396": 1}).payload)
    return _FLUSH[0]


def one(ctx, payload, label):
    from pyrtcm import RTCMMessage, RTCMReader

    import zlib

    from vf import refmsm, streams

    params = {"payload": payload.hex(), "label": label}
    # representation of the caller's data, decided by the bytes (replayable); memoryviews are left out here because
    # the repr of a message built on one is not evaluable on any tree (payloads are bytes-like VALUES in this property)
    rep = ("bytes", "bytes", "bytearray", "sub")[zlib.crc32(payload) % 4]
    ctx.hit("rep:" + rep)
    try:
        m = RTCMMessage(payload=streams.as_rep(rep, payload))
    except Exception as e:
        if type(e) in common.lib_errors():
            ctx.hit("does_not_parse")
            return
        ctx.violation("ctor-foreign-exception", f"{type(e).__name__}: {e}", params)
        return
    want = refcrc.frame(payload)
    want1 = b"\xd3" + bytes([len(payload) >> 8, len(payload) & 0xFF]) + payload
    assert want[:-3] == want1 and refcrc.crc_ref1(want1) == int.from_bytes(want[-3:], "big")
    try:
        s = m.serialize()
    except Exception as e:
        ctx.violation("serialize-raised", f"{label} len {len(payload)}: serialize() raised {type(e).__name__}: {e}", params)
        return
    ctx.hit("serialize_checked")
    if s != want:
        where = "header" if s[:3] != want[:3] else "crc" if s[-3:] != want[-3:] else "payload"
        ctx.violation("serialize-not-canonical",
                      f"{label} len {len(payload)}: serialize() = {s[:6].hex()}..{s[-3:].hex()} expected "
                      f"{want[:6].hex()}..{want[-3:].hex()} (differs in {where})", params)
        return
    num = ((payload[0] << 4) | (payload[1] >> 4)) if len(payload) >= 2 else -1
    if len(payload) > 6 and zlib.crc32(payload) % 3 == 0:
        # between serialising and parsing back, a TRUNCATED payload of the same identity is offered (and refused)
        try:
            RTCMMessage(payload=payload[: max(3, len(payload) // 2)])
        except Exception:
            ctx.hit("failed_decode_of_same_identity_between")
    if num in refmsm.MSM_NUMBERS:
        # between serialising and parsing back, the same MSM body arrives from ANOTHER constellation (same masks)
        others = [n for n in refmsm.MSM_NUMBERS if n % 10 == num % 10 and n != num]
        o = others[zlib.crc32(payload) % len(others)]
        twin = bytes([o >> 4, ((o & 0xF) << 4) | (payload[1] & 0x0F)]) + payload[2:]
        try:
            RTCMReader.parse(refcrc.frame(_flush_payload()))  # an MSM with unrelated masks first
            RTCMReader.parse(refcrc.frame(twin))
            ctx.hit("other_constellation_between")
        except Exception:
            pass
    try:
        m2 = RTCMReader.parse(s)
    except Exception as e:
        ctx.violation("reparse-raised", f"{label}: parse(serialize(m)) raised {type(e).__name__}: {e}", params)
        return
    ctx.hit("reparse_checked")
    a1 = refmodel.public_attrs(m)
    a2 = refmodel.public_attrs(m2)
    if m2.payload != payload or m2.identity != m.identity or a1 != a2:
        ctx.violation("reparse-differs",
                      f"{label}: parse(serialize(m)) differs: payload equal={m2.payload == payload}, identity "
                      f"{m.identity}->{m2.identity}, attrs equal={a1 == a2}", params)
        return
    try:
        m3 = RTCMReader.parse(streams.as_rep(rep, want))
        s3 = m3.serialize()
    except Exception as e:
        ctx.violation("frame-roundtrip-raised", f"{label}: {type(e).__name__}: {e}", params)
        return
    ctx.hit("frame_roundtrip_checked")
    if s3 != want:
        ctx.violation("frame-roundtrip-differs", f"{label}: parse(frame).serialize() != frame", params)
        return
    # a message obtained from a NON-canonical source must still serialise canonically:
    # (a) wrong checksum bytes accepted with validation off; (b) a CRC-valid buffer whose header has reserved bits
    #     set / a foreign preamble (the static parser only checks the CRC)
    wrong = want[:-3] + bytes([want[-3] ^ 0x5A, want[-2], want[-1] ^ 0x01])
    hdr2 = bytes([0xD3 if len(payload) % 2 else 0x53, want[1] | 0x84, want[2]]) + payload
    odd = hdr2 + refcrc.crc_ref2(hdr2).to_bytes(3, "big")
    for label2, buf, v in (("wrong-crc,validate=0", wrong, 0), ("odd-header,validate=1", odd, 1)):
        try:
            mx = RTCMReader.parse(buf, validate=v)
        except common.lib_errors():
            if v == 1:
                # a parser that refuses a buffer with a foreign preamble / reserved bits is within the property
                ctx.hit("odd_header_rejected")
                continue
            ctx.violation("noncanonical-source-raised", f"{label} [{label2}]: rejected although validation is off",
                          params)
            return
        except Exception as e:
            ctx.violation("noncanonical-source-raised", f"{label} [{label2}]: {type(e).__name__}: {e}", params)
            return
        try:
            sx = mx.serialize()
        except Exception as e:
            ctx.violation("serialize-raised", f"{label} [{label2}]: serialize() raised {type(e).__name__}: {e}", params)
            return
        ctx.hit("noncanonical_source_checked")
        if mx.payload != payload or sx != want:
            ctx.violation("serialize-not-canonical", f"{label} len {len(payload)} [{label2}]: message parsed from a "
                          f"non-canonical buffer serialises to {sx[:4].hex()}..{sx[-3:].hex()}, canonical frame is "
                          f"{want[:4].hex()}..{want[-3:].hex()}", params)
            return
    try:
        m4 = eval(repr(m), {"RTCMMessage": RTCMMessage, "__builtins__": {"bytearray": bytearray}})  # noqa: S307
    except Exception as e:
        ctx.violation("repr-not-evaluable", f"{label}: eval(repr(m)) raised {type(e).__name__}: {e}; "
                      f"repr starts {repr(m)[:60]}", params)
        return
    ctx.hit("repr_checked")
    if not isinstance(m4, RTCMMessage) or m4.payload != payload:
        ctx.violation("repr-roundtrip-differs", f"{label}: eval(repr(m)).payload differs", params)
        return
    if zlib.crc32(payload) % 4 == 1:
        # the same for a message built with the other label option
        try:
            mo = RTCMMessage(payload=streams.as_rep(rep, payload), labelmsm=2)
            m5 = eval(repr(mo), {"RTCMMessage": RTCMMessage, "__builtins__": {"bytearray": bytearray}})  # noqa: S307
        except Exception as e:
            ctx.violation("repr-not-evaluable", f"{label} (labelmsm=2): {type(e).__name__}: {e}", params)
            return
        if not isinstance(m5, RTCMMessage) or m5.payload != payload:
            ctx.violation("repr-roundtrip-differs", f"{label} (labelmsm=2): eval(repr(m)).payload differs", params)
            return
        ctx.hit("repr_checked_labelmsm2")
        # a copy of a message (copy / deepcopy / pickle round trip), where one can be made, carries the same
        # attribute values and text as the message it was made from and as a parse of its own serialisation
        import copy as _copy
        import pickle as _pickle

        for src_m, lm in ((mo, 2), (m, None)):
            how = zlib.crc32(payload[::-1]) % 3
            try:
                clone = (_copy.copy, _copy.deepcopy, lambda x: _pickle.loads(_pickle.dumps(x)))[how](src_m)
            except Exception:
                ctx.hit("copy_not_supported")
                continue
            pub = lambda o: {k: v for k, v in vars(o).items() if not k.startswith("_")}  # noqa: E731
            ctx.hit("copy_checked")
            if pub(clone) != pub(src_m) or str(clone) != str(src_m) or clone.serialize() != src_m.serialize():
                diff = sorted(k for k in set(pub(clone)) | set(pub(src_m)) if pub(clone).get(k) != pub(src_m).get(k))
                ctx.violation("copy-differs", f"{label}" + (f" (labelmsm={lm})" if lm else "") + ": a "
                              f"{('copy.copy', 'copy.deepcopy', 'pickle')[how]} of the message differs from it in "
                              f"{diff[:4] or 'text / serialisation'}", params)
                return
    if monitors.RECORDED:
        kind, desc = monitors.RECORDED[0]
        del monitors.RECORDED[:]
        ctx.hit("internal:" + kind)
    # the same frame obtained from stream readers (file-like and multi-segment socket) round-trips too
    if len(payload) % 4 == 0:
        import io

        from vf import doubles

        third = max(1, len(want) // 3)
        # in front of it, through the SAME reader: a different valid frame of the same length with the same CRC bytes
        # (only one that parses on its own, so that every frame of the stream must come back)
        front = b""
        tw_ = streams.crc_collider(want, __import__("random").Random(len(want)))
        if tw_ is not None and tw_ != want:
            try:
                if RTCMReader.parse(tw_).serialize() == tw_:
                    front = tw_
                    ctx.hit("reader_roundtrip_behind_collider")
            except Exception:
                pass
        for backend in ("file", "socket"):
            sock = None
            try:
                if backend == "file":
                    rdr = RTCMReader(io.BytesIO(front + want), quitonerror=2)
                else:
                    sock = doubles.ScriptedSocket(front + want, [third, third, 1], budget=8 * len(want) + 64)
                    rdr = RTCMReader(sock, quitonerror=2, bufsize=max(1, len(want) // 4))
                got = [(bytes(r), p_) for r, p_ in rdr]
                if front and got and got[0][0] == front and got[0][1] is not None and got[0][1].serialize() == front:
                    got = got[1:]
            except BaseException as e:
                ctx.violation("reader-roundtrip-raised", f"{label}: reading the serialised frame back over a {backend} "
                              f"stream raised {type(e).__name__}: {e}", params)
                return
            finally:
                if sock is not None:
                    sock.close()
            if len(got) != 1 or got[0][0] != want or got[0][1].serialize() != want or got[0][1].payload != payload:
                ctx.violation("reader-roundtrip-differs", f"{label} len {len(payload)}: the serialised frame read back over a "
                              f"{backend} stream gives {len(got)} frame(s) / a different frame", params)
                return
            ctx.hit("reader_roundtrip_checked")
    ctx.case(payload, len(payload) > 2)
    if len(payload) in (255, 256, 1023):
        ctx.hit(f"len{len(payload)}")


def run(ctx):
    monitors.install_crc_monitor()
    rng = ctx.rng
    # every payload length 2..1023 under unknown numbers
    for ln in range(2, 1024):
        if not ctx.mine(ln):
            continue
        for rep in range(8 if ctx.quick else 100):
            p = streams.rand_unknown_payload(rng, ln)
            if rep % 2 == 1 or rng.random() < 0.3:
                p = p[:2] + bytes(rng.choice(NASTY) for _ in range(ln - 2))
            one(ctx, p, "unknown")
        ctx.hit("lengths_enumerated")
    # families of payloads that are equal as big-endian integers (differ only by leading zero bytes) or
    # equal up to trailing zero bytes, serialised one after the other in the same process
    for _ in range(ctx.n(400, 8000)):
        tail = bytes(rng.getrandbits(8) for _ in range(rng.choice((1, 2, 3, 17, 60))))
        for k in (1, 2, 3, 4):
            one(ctx, b"\x00" * k + tail, "leading-zeros")
        base = streams.rand_unknown_payload(rng, rng.choice((2, 5, 30)))
        for k in (0, 1, 2, 3):
            one(ctx, base + b"\x00" * k, "trailing-zeros")
        ctx.hit("alias_families")
    # payloads that are themselves complete valid frames (message numbers 0xD30..): must stay opaque
    for _ in range(ctx.n(300, 6000)):
        inner = streams.rand_defined_payload(rng) if rng.random() < 0.5 else streams.rand_unknown_payload(rng, rng.randint(2, 60))
        pl = refcrc.frame(inner)
        if len(pl) <= 1023:
            one(ctx, pl, "frame-as-payload")
            ctx.hit("frame_as_payload")
    # payloads of the frames in the repository's recorded logs
    for k_, (name_, fr_) in enumerate(common.recorded_frames()):
        if ctx.mine(k_):
            one(ctx, fr_[3:-3], "recorded:" + name_)
            ctx.hit("recorded_frames_checked")
    # frames whose CHECKSUM BYTES have chosen values (zero bytes, CR LF, sync bytes, '%', quotes, leading zeros ...)
    for _ in range(ctx.n(12, 200)):
        for t in streams.STEER_TARGETS:
            base = streams.rand_defined_payload(rng) if rng.random() < 0.5 else streams.rand_unknown_payload(
                rng, rng.randint(2, 40))
            if len(base) <= 1020:
                one(ctx, streams.steer_payload(base, t), f"crc={t:06x}")
                ctx.hit("steered_checksums")
    # defined identities at natural length and padded
    ids = [i for i in refmodel.identities() if refmodel.reachable(i)]
    for k, identity in enumerate(ids):
        if not ctx.mine(k):
            continue
        for j in range(60 if ctx.quick else 1800):
            try:
                enc = refmodel.build(identity, rng, rng.choice(refmodel.VSTRATS),
                                     rng.choice(refmodel.CSTRATS), rng.choice(refmodel.MSTRATS))
            except refmodel.DefinitionError:
                break
            one(ctx, enc.payload, identity)
            if j < 3 and refmodel.is_msm_identity(identity):
                # MSM shapes at the standard's limit: satellites x signals == 64 exactly (and 63)
                nsat, nsig = rng.choice(((16, 4), (8, 8), (32, 2), (64, 1), (2, 32), (4, 16), (21, 3), (9, 7)))
                try:
                    big = refmodel.build(identity, rng, "random", "small", "random", force={
                        "DF394": sum(1 << b for b in rng.sample(range(64), nsat)),
                        "DF395": sum(1 << b for b in rng.sample(range(32), nsig)),
                        "DF396": rng.getrandbits(nsat * nsig) & rng.getrandbits(nsat * nsig) | 1})
                except (refmodel.DefinitionError, KeyError):
                    big = None
                if big is not None and len(big.payload) <= 1023:
                    if not parses(big.payload):
                        ctx.violation("valid-frame-not-parsed", f"{identity} with {nsat} satellites x {nsig} signals "
                                      f"(cell mask of {nsat * nsig} bits): the frame of a well-formed message is rejected",
                                      {"payload": big.payload.hex(), "label": identity + "+64cells"})
                        return
                    one(ctx, big.payload, identity + "+64cells")
                    ctx.hit("msm_mask_limit_shapes")
            if j < 4:
                tgt = rng.choice((255, 256, 511, 512, 1022, 1023))
                if len(enc.payload) <= tgt:
                    one(ctx, streams.pad_payload(enc.payload, tgt, rng), identity + "+pad")
    # frames of well-formed messages laid out from the PINNED geometry of every type (vf.stdgeom: the standards' field
    # widths and repeat structure, random content): each is a valid frame, so it must parse and round-trip
    from vf import stdgeom

    for k, identity in enumerate(sorted(stdgeom.SPEC)):
        if not ctx.mine(k + 7) or identity not in refmodel.identities():
            continue
        for j in range(9 if ctx.quick else 240):
            try:
                nbits, val, chosen = stdgeom.generate(identity, rng, ("small", "one", "random")[j % 3])
            except RuntimeError:
                continue
            pl, _pw = stdgeom.to_payload(nbits, val, rng.getrandbits(8))
            if len(pl) > 1023:
                continue
            if not parses(pl):
                ctx.violation("valid-frame-not-parsed", f"{identity} with counts {chosen}: the frame of a message of the "
                              f"standard's length ({nbits} bits) is rejected",
                              {"payload": pl.hex(), "label": identity + "+geom"})
                return
            one(ctx, pl, identity + "+geom")
            ctx.hit("pinned_geometry_frames")
    ctx.sample({"relation": "serialize() == D3|len16|payload|CRC24Q(ref); parse(serialize(m)) == m; "
                            "parse(frame).serialize() == frame; eval(repr(m)).payload == payload",
                "example_payload_hex": streams.rand_unknown_payload(rng, 12).hex()})
    for k, v in monitors.EVAL.items():
        ctx.hit("contract_eval:" + k, v)


def replay(ctx, p):
    monitors.install_crc_monitor()
    if p.get("label", "").endswith(("+64cells", "+geom")) and not parses(bytes.fromhex(p["payload"])):
        ctx.violation("valid-frame-not-parsed", f"{p['label']}: the frame of a well-formed message is rejected", p)
        return
    one(ctx, bytes.fromhex(p["payload"]), p.get("label", "replay"))
