"""C05 - A damaged frame costs exactly that frame; error modes differ only in reporting.

Offline checker over the ordered event log [deliver(raw) | handler(err) | raised(err)] produced by
the real reader, against the producer's frame list and the set of frames chosen for damage.
"""

import io

from vf import common, doubles, refcrc, streams

LEVEL = "fault_enumeration"
RULE = (
    "case = (stream of 3..40 parseable frames of implemented and unknown types, subset of frames damaged, damage "
    "pattern from the guaranteed-detectable classes {1 bit, 2 bits, 3 bits, odd number of bits, burst <= 24 bits} at "
    "positions behind the 3-byte header (payload or CRC bytes), error mode, handler present or not). Subsets: none, "
    "EVERY single frame in turn (enumeration), first/last/adjacent pairs, random subsets, all frames; one frame per "
    "stream gets a bit-position sweep. distinct = blake2b(damaged stream, mode, handler); non-trivial = at least one "
    "frame damaged and at least one left intact"
)
RULE += (
    ' Also: backends BytesIO / BufferedReader / pipe / makefile / scripted socket; exact and damaged'
    ' repeats of earlier frames; frames with steered checksum bytes; raise-mode consumers via read(),'
    ' next(reader) and one held iterator; user handlers of four kinds (function, bound method, partial,'
    ' falsy callable container); runs of more than a thousand damaged frames in a row.'
)
RULE += (
    " Also: damage whose residue is 0xFFFFFF and neighbours."
)
RULE += (
    " Also: streams made of every pinned message type laid out from the pinned layouts; readers under label options 1 / 2 / True."
)
ASSUMPTIONS = [
    "all frames of the stream are parseable when undamaged (payload >= natural length of their type)",
    "damage never touches the 3 header bytes (the property is stated for payload and checksum bytes)",
    "without a user handler only the delivered frames are checked (log records are counted as evidence)",
]
GATES = ["pinned_layout_streams", "events_checked", "mode0", "mode1", "mode2", "handler_calls_checked", "raise_resumed",
         "pos:crc", "pos:payload", "pos:straddle", "backend:buffered", "backend:pipe", "backend:makefile",
         "backend:bytesio", "backend:socket", "raise_via_next", "raise_via_read", "raise_via_held_iterator",
         "long_damaged_runs"]


def make_frames(rng, n):
    out = []
    for _ in range(n):
        kind = rng.choice(("defined", "defined", "defined", "unknown", "len2", "len255", "defmax", "steered", "steered"))
        if kind == "len2":
            p = streams.rand_unknown_payload(rng, 2)
            fr = refcrc.frame(p)
        else:
            fr, p, _ = streams.rand_frame(rng, kind)
        out.append(fr)
    # static messages repeat verbatim: some frames are exact repeats of earlier ones
    for _ in range(rng.choice((0, 1, 2))):
        if len(out) > 2:
            out[rng.randrange(1, len(out))] = out[rng.randrange(0, len(out) - 1)]
    if len(out) > 3 and rng.random() < 0.5:  # ... and some directly behind their original
        j = rng.randrange(0, len(out) - 1)
        out[j + 1] = out[j]
    return out


class _Sink:
    def __init__(self, cb):
        self.cb = cb

    def take(self, err):
        self.cb(err)


class _CallableList(list):
    """A callable that is also an empty container (bool() is False)."""

    def __init__(self, cb):
        super().__init__()
        self.cb = cb

    def __call__(self, err):
        self.cb(err)


def run_case(ctx, frames, damage, mode, handler, backend="file"):
    """damage: {frame_index: [bit positions within that frame]}"""
    from pyrtcm import RTCMReader
    from pyrtcm.exceptions import RTCMParseError

    libs = common.lib_errors()
    dmg = {int(k): v for k, v in damage.items()}
    sent = [streams.flip(f, dmg[i]) if i in dmg else f for i, f in enumerate(frames)]
    data = b"".join(sent)
    params = {"frames": [f.hex() for f in frames], "damage": {str(k): v for k, v in dmg.items()},
              "mode": mode, "handler": handler, "backend": backend}
    events = []

    def on_error(err):
        ctx.hit("handler_errtype:" + type(err).__name__)
        events.append(("handler", "any"))  # the property fixes the error class only for raise mode

    # the user's handler is any callable: a function, a bound method, a functools.partial, or a callable object that
    # happens to be an (empty, hence falsy) container collecting errors elsewhere - chosen by the data (replayable)
    import functools
    import zlib

    hkind = zlib.crc32(data) % 4
    if hkind == 1:
        user_handler = _Sink(on_error).take
    elif hkind == 2:
        user_handler = functools.partial(lambda tag, err: on_error(err), "x")
    elif hkind == 3:
        user_handler = _CallableList(on_error)
    else:
        user_handler = on_error
    if handler:
        ctx.hit(f"handler_kind:{('function', 'bound-method', 'partial', 'falsy-callable-object')[hkind]}")
    feeder = None
    if backend == "serial":  # the surface of a pyserial port: in_waiting, reset_input_buffer() ...
        stream = doubles.SerialLikeStream(data, budget=3 * len(data) + 16)
    elif backend == "file":
        stream = doubles.RecordingStream(data, budget=3 * len(data) + 16)
    elif backend == "buffered":  # BufferedReader over a non-seekable raw stream
        stream = io.BufferedReader(doubles.RawChunky(data, (7, 64, 3, 1000)), buffer_size=64)
    elif backend == "pipe":
        stream, feeder = doubles.pipe_file(data)
    elif backend == "makefile":
        stream, feeder = doubles.makefile_stream(data)
    elif backend == "socket":  # real-socket subclass with arbitrary segmentation (no timeouts)
        import random as _r

        rr = _r.Random(len(data))
        stream = doubles.ScriptedSocket(data, [rr.choice((1, 2, 5, 17, 100, 700)) for _ in range(200)],
                                        budget=4 * len(data) + 512)
    else:
        stream = io.BytesIO(data)
    with common.capture_logs("pyrtcm") as cap:
        from vf import posargs

        # some readers get their leading options by POSITION, in the documented order
        npos = posargs.npos_for(len(data) // 3)
        ctx.hit(f"reader_positional_args_{npos}")
        rdr = posargs.make_reader(RTCMReader, stream, npos, validate=1, quitonerror=mode,
                                  errorhandler=(user_handler if handler else None),
                                  labelmsm=(1, 2, True)[len(data) % 3])
        problem = None
        if mode in (0, 1):
            try:
                for raw, parsed in rdr:
                    events.append(("deliver", bytes(raw)))
                    if len(events) > 3 * len(frames) + 8:
                        problem = "iteration does not stop"
                        break
            except BaseException as e:  # incl. BudgetExceeded
                problem = f"iterator raised {type(e).__name__}: {e}"
        else:
            guard = 3 * len(frames) + 8
            after_exc = False
            # raise-mode consumers: read(); next(reader); an iterator obtained ONCE with iter(reader) and kept across
            # the exceptions (what a `for` statement holds)
            style = (len(data) + len(dmg)) % 3
            use_next = style != 0
            it = iter(rdr) if style == 2 else rdr
            ctx.hit(("raise_via_read", "raise_via_next", "raise_via_held_iterator")[style])
            while guard > 0:
                guard -= 1
                try:
                    if use_next:
                        try:
                            raw, parsed = next(it)
                        except StopIteration:
                            break
                    else:
                        raw, parsed = rdr.read()
                except libs as e:
                    events.append(("raised", type(e).__name__))
                    after_exc = True
                    continue
                except BaseException as e:
                    problem = f"read() raised {type(e).__name__}: {e}"
                    break
                if raw is None and parsed is None:
                    break
                if after_exc:
                    ctx.hit("raise_resumed")
                    after_exc = False
                events.append(("deliver", bytes(raw)))
        nlog = len(cap.records)
    if backend == "socket":
        stream.close()
    if feeder is not None:
        try:
            stream.close()
        except OSError:
            pass
        feeder.join(5)
    ctx.hit("backend:" + backend)
    # ---- expected event sequence
    exp = []
    for i, f in enumerate(frames):
        if i in dmg:
            if mode == 1 and handler:
                exp.append(("handler", "any"))
            elif mode == 2:
                exp.append(("raised", "RTCMParseError"))
        else:
            exp.append(("deliver", f))
    got = events
    if mode == 0 or (mode == 1 and not handler):
        got_cmp = [e for e in events if e[0] == "deliver"]
        if mode == 0 and handler and any(e[0] == "handler" for e in events):
            ctx.violation("handler-called-in-ignore-mode",
                          f"handler called {sum(1 for e in events if e[0] == 'handler')} times in ignore mode", params)
            return
    elif mode == 2:
        got_cmp = [e for e in events if e[0] != "handler"]
    else:
        got_cmp = got
    ctx.hit("events_checked", len(exp))
    ctx.hit(f"mode{mode}")
    if mode == 1 and handler:
        ctx.hit("handler_calls_checked", len(dmg))
    if mode == 1 and not handler:
        ctx.hit("log_records_seen", nlog)
        ctx.hit("log_records_expected", len(dmg))
    if problem:
        ctx.violation("reader-broke", f"mode {mode}: {problem}", params)
        return
    if got_cmp != exp:
        i = 0
        while i < len(got_cmp) and i < len(exp) and got_cmp[i] == exp[i]:
            i += 1

        def show(e):
            return (e[0], e[1][:8].hex() + "..") if e[0] == "deliver" else e

        ctx.violation(
            "event-sequence",
            f"mode {mode} handler={handler}: {len(frames)} frames, damaged {sorted(dmg)}; event {i}: got "
            f"{show(got_cmp[i]) if i < len(got_cmp) else 'END'} expected {show(exp[i]) if i < len(exp) else 'END'}; "
            f"delivered {sum(1 for e in got_cmp if e[0] == 'deliver')} of {len(frames) - len(dmg)} intact frames",
            params)
        return
    for i, pos in dmg.items():
        nb = len(frames[i]) * 8
        lo, hi = min(pos), max(pos)
        if lo >= nb - 24:
            ctx.hit("pos:crc")
        elif hi < nb - 24:
            ctx.hit("pos:payload")
        else:
            ctx.hit("pos:straddle")
        if lo < 32:
            ctx.hit("pos:first-payload-byte")
        ctx.hit("weight:%s" % ("1" if len(pos) == 1 else "2" if len(pos) == 2 else "3" if len(pos) == 3 else
                                ("odd" if len(pos) % 2 else "even-burst")))
    ctx.case(data + bytes([mode, handler]), 0 < len(dmg) < len(frames))
    ctx.sample({"frames": len(frames), "damaged": {str(k): v[:6] for k, v in list(dmg.items())[:3]}, "mode": mode,
                "handler": bool(handler), "events": [e[0] for e in events][:16], "log_records": nlog})


_DEFINED = []


def _defined():
    if not _DEFINED:
        from vf import refmodel

        _DEFINED.append(set(refmodel.identities()))
    return _DEFINED[0]


def damage_for(rng, frame, cls=None):
    nb = len(frame) * 8
    _, pos = streams.damage_positions(rng, nb, 24, cls)
    return pos


def run(ctx):
    common.quiet_logging()
    rng = ctx.rng
    combos = [(0, 0), (0, 1), (1, 0), (1, 1), (2, 0), (2, 1)]
    for it in range(ctx.n(600, 5000)):
        n = rng.randint(3, 12) if it % 4 else rng.randint(13, 40)
        frames = make_frames(rng, n)
        subsets = [[]]
        subsets += [[i] for i in range(n)]  # every single frame in turn
        subsets += [[0, n - 1], [0, 1], [n - 2, n - 1], list(range(n))]
        j = rng.randrange(n - 1)
        subsets.append([j, j + 1])
        for _ in range(4):
            subsets.append(sorted(rng.sample(range(n), rng.randint(1, n))))
        twins = [i for i in range(n - 1) if frames[i] == frames[i + 1]]
        for i in twins[:1]:
            # consecutive identical frames: the second damaged in the checksum only; both damaged identically
            nbf = len(frames[i]) * 8
            crcpos = [nbf - 24 + rng.randrange(24)]
            same = damage_for(rng, frames[i])
            for dmg_ in ({i + 1: crcpos}, {i: same, i + 1: same}, {i: crcpos, i + 1: crcpos}):
                mode, handler = combos[(it + i) % 6]
                run_case(ctx, frames, dmg_, mode, handler, ("file", "bytesio", "socket", "serial")[(it + i) % 4])
            ctx.hit("consecutive_twin_damage")
        if it % 3 == 0:
            # two DIFFERENT frames with the same length and the same checksum bytes next to each other, both damaged
            # in the payload: two damaged frames, two reports
            for i in range(n - 1):
                # (only frames of numbers WITHOUT a definition: other payload bits of a defined type need not decode)
                if 12 < len(frames[i]) < 400 and common.expected_identity(frames[i][3:-3]) not in _defined():
                    c = streams.crc_collider(frames[i], rng)
                    if c is not None and c != frames[i]:
                        fr2 = list(frames)
                        fr2[i + 1] = c
                        pay_bits = (len(c) - 6) * 8
                        dmg_ = {i: [24 + rng.randrange(pay_bits)], i + 1: [24 + rng.randrange(pay_bits)]}
                        for mode, handler in ((1, 1), (2, 0), (0, 0)):
                            run_case(ctx, fr2, dmg_, mode, handler, "bytesio")
                        ctx.hit("adjacent_collider_pairs_damaged")
                        break
        for k, sub in enumerate(subsets):
            mode, handler = combos[(it + k) % 6]
            damage = {i: damage_for(rng, frames[i]) for i in sub}
            run_case(ctx, frames, damage, mode, handler,
                     ("file", "socket", "bytesio", "buffered", "serial", "pipe", "file", "makefile", "serial")[k % 9])
        # bit-position sweep on one frame
        i = rng.randrange(n)
        nb = len(frames[i]) * 8
        positions = range(24, nb) if not ctx.quick else sorted(rng.sample(range(24, nb), min(24, nb - 24)))
        if nb - 24 > 600 and not ctx.quick:
            positions = sorted(rng.sample(range(24, nb), 600))
        for b in positions:
            mode, handler = combos[b % 6]
            run_case(ctx, frames, {i: [b]}, mode, handler)
        ctx.hit("position_sweeps")
    for it in range(ctx.n(2, 30)):
        mode, handler = combos[(it + ctx.worker) % 6]
        long_run_case(ctx, rng, mode, handler)
    # every message type with a pinned field layout at least a few times per run, laid out from the PINNED layout with
    # varied counts and presence flags, twelve to a stream, one frame of each stream damaged
    from vf import refmodel, stdlayout

    pins = [i for k, i in enumerate(sorted(stdlayout.LAYOUT)) if ctx.mine(k) and i in _defined()]
    batch = []
    for identity in pins:
        for cs in ("one", "small", "random") * (4 if ctx.quick else 24):
            try:
                e_ = refmodel.build(identity, rng, rng.choice(("random", "mixed", "ones")), cs, "random",
                                    tabs=(stdlayout.LAYOUT, stdlayout.F))
            except Exception:
                continue
            if len(e_.payload) <= 1023:
                batch.append(refcrc.frame(e_.payload))
    for a in range(0, len(batch), 12):
        frames = batch[a:a + 12]
        if len(frames) < 2:
            continue
        i = rng.randrange(len(frames))
        mode, handler = combos[(a // 12) % 6]
        run_case(ctx, frames, {i: damage_for(rng, frames[i])}, mode, handler, ("bytesio", "file", "socket")[(a // 12) % 3])
        ctx.hit("pinned_layout_streams")


def long_run_case(ctx, rng, mode, handler):
    """More than a thousand damaged frames in a row (a noisy link), good frames before and after."""
    from vf import refcrc

    small = [refcrc.frame(streams.rand_unknown_payload(rng, rng.randint(2, 5))) for _ in range(rng.randint(1100, 1400))]
    lead = make_frames(rng, 2)
    tail = make_frames(rng, 3)
    frames = lead + small + tail
    damage = {i: [24 + rng.randrange((len(frames[i]) - 3) * 8)] for i in range(len(lead), len(lead) + len(small))}
    run_case(ctx, frames, damage, mode, handler, "bytesio")
    ctx.hit("long_damaged_runs")


def replay(ctx, p):
    common.quiet_logging()
    run_case(ctx, [bytes.fromhex(f) for f in p["frames"]], p["damage"], p["mode"], p["handler"], p["backend"])
