"""C16 - The MSM label option changes signal labels only.

Differential monitor: the same payload parsed under label options {0, 1, 2, True} through the
message constructor, the static parser and a stream reader.
"""

import io
import random

from vf import refcrc, refmodel, refmsm

LEVEL = "exploration"
RULE = (
    "case = (payload, label options {0,1,2,True}, entry point in {RTCMMessage, RTCMReader.parse, reader iteration}): "
    "MSM payloads of all 49 types with mask shapes as in C09 (single bits incl. reserved IDs, dense, random) and "
    "every non-MSM identity. Checked: options differ only in CELLSIG_* attributes; True == 1 exactly; the three entry "
    "points agree; under each option (constellation, signal ID) -> label is a function; non-MSM messages identical "
    "under all options. distinct = blake2b(payload); non-trivial = MSM message with >= 1 cell, or a non-MSM message "
    "with >= 3 attributes"
)
RULE += (
    ' Also: option order shuffled per case; RINEX codes pinned for option 1; under option 2 a signal with'
    ' a pinned RINEX code must not carry that code; inputs as bytearray / subclass / memoryview; two live'
    ' readers with different options read alternately; truncated payloads must fail the same way under all'
    ' four option values.'
)
RULE += (
    " Also: a message of another constellation with bit-identical masks parsed right before each option."
)
ASSUMPTIONS = ["option value 0 is only required to leave non-label attributes untouched (its label style is not specified)",
               "under the frequency-band option a signal with a pinned RINEX code is not labelled with that RINEX code "
               "(band labels and RINEX observation codes are different vocabularies)"]
GATES = ["sibling_constellation_parsed_first", "msm_compared", "nonmsm_compared", "entrypoints_compared", "label_function_checked", "cells_compared",
         "live_readers_compared"]

OPTS = (0, 1, 2, True)


def attrs_of(m):
    return [(k, v) for k, v in m.__dict__.items() if not k.startswith("_")]


def via(entry, payload, opt):
    from pyrtcm import RTCMMessage, RTCMReader

    import zlib

    from vf import streams

    # the caller's data as bytes / bytearray / bytes subclass / memoryview (decided by the bytes and the option)
    rep = ("bytes", "bytes", "bytearray", "sub", "mview", "mslice")[(zlib.crc32(payload) + int(opt)) % 6]
    if entry == "ctor":
        return attrs_of(RTCMMessage(payload=streams.as_rep(rep, payload), labelmsm=opt))
    fr = refcrc.frame(payload)
    if entry == "parse":
        return attrs_of(RTCMReader.parse(streams.as_rep(rep, fr), labelmsm=opt))
    out = list(RTCMReader(io.BytesIO(fr), labelmsm=opt, quitonerror=2, validate=len(payload) & 1,
                          parsed=True))
    assert len(out) == 1
    return attrs_of(out[0][1])


def eq(a, b):
    return len(a) == len(b) and all(n1 == n2 and refmodel.values_equal(v1, v2) for (n1, v1), (n2, v2) in zip(a, b))


def check(ctx, identity, payload, meta, params):
    msm = refmodel.is_msm_identity(identity)
    order = list(OPTS)
    ctx.rng.shuffle(order)  # state leaking from one parse into the next must not depend on a fixed order
    try:
        res = {}
        for opt in order:
            if params.get("sibling"):
                # right before: the SAME masks in a message of another constellation, under the same option
                try:
                    via("ctor", bytes.fromhex(params["sibling"]), opt)
                    ctx.hit("sibling_constellation_parsed_first")
                except Exception:
                    pass
            res[opt] = via("ctor", payload, opt)
    except Exception as e:
        ctx.violation("option-parse-raised", f"{identity}: {type(e).__name__}: {str(e)[:160]}", params)
        return
    base = res[1]
    if not eq(res[True], base):
        ctx.violation("true-differs-from-1", f"{identity}: labelmsm=True and labelmsm=1 give different messages", params)
        return
    for opt in (0, 2):
        a = [(n, v) for n, v in res[opt] if not (msm and n.startswith("CELLSIG_"))]
        b = [(n, v) for n, v in base if not (msm and n.startswith("CELLSIG_"))]
        if not eq(a, b):
            d = [(x, y) for x, y in zip(a, b) if x != y][:3]
            ctx.violation("option-changes-other-attributes" if msm else "option-affects-non-msm",
                          f"{identity}: labelmsm={opt} vs 1 differ outside the cell signal labels: {d}", params)
            return
        if [n for n, _ in res[opt]] != [n for n, _ in base]:
            ctx.violation("option-changes-attribute-set", f"{identity}: labelmsm={opt} changes the attribute names", params)
            return
    # entry points agree
    ep = ctx.rng.choice(("parse", "reader"))
    opt = ctx.rng.choice(OPTS)
    try:
        other = via(ep, payload, opt)
    except Exception as e:
        ctx.violation("option-parse-raised", f"{identity} via {ep}: {type(e).__name__}: {str(e)[:160]}", params)
        return
    if not eq(other, res[opt]):
        ctx.violation("entrypoints-disagree", f"{identity}: labelmsm={opt} via {ep} differs from the constructor "
                      f"(option not passed through?)", params)
        return
    ctx.hit("entrypoints_compared")
    if msm and len(payload) % 3 == 0:
        # two readers alive at once, one per label option, read alternately
        from pyrtcm import RTCMReader

        fr = refcrc.frame(payload)
        from vf import posargs

        # half of these pairs are built with the leading options given BY POSITION in the documented order
        # (datastream, validate, quitonerror, labelmsm, ...)
        npos = 3 if len(payload) % 2 == 0 else 0
        ctx.hit(f"live_readers_positional_{npos}")
        r1 = posargs.make_reader(RTCMReader, io.BytesIO(fr + fr), npos, labelmsm=1, quitonerror=2)
        r2 = posargs.make_reader(RTCMReader, io.BytesIO(fr + fr), npos, labelmsm=2, quitonerror=2)
        try:
            got = [attrs_of(r1.read()[1]), attrs_of(r2.read()[1]), attrs_of(r1.read()[1]), attrs_of(r2.read()[1])]
        except Exception as e:
            ctx.violation("option-parse-raised", f"{identity} via two live readers: {type(e).__name__}: {e}", params)
            return
        for g, o in zip(got, (1, 2, 1, 2)):
            if not eq(g, res[o]):
                ctx.violation("entrypoints-disagree", f"{identity}: a reader created with labelmsm={o} returns other labels "
                              f"while a second reader with the other option is alive", params)
                return
        ctx.hit("live_readers_compared")
    if msm:
        cells = meta.get("cells", [])
        pre = identity[:3]
        for opt in (1, 2):
            d = dict(res[opt])
            for k, (sid, gid) in enumerate(cells, 1):
                lab = d.get(f"CELLSIG_{k:02d}")
                if opt == 1 and not refmsm.sig_ok(pre, gid, lab):
                    ctx.violation("rinex-option-label", f"{identity}: under labelmsm=1 (parsed in option order {order}) "
                                  f"signal ID {gid} of {refmsm.CONSTELLATION[pre]} is labelled {lab!r}, not its RINEX code",
                                  params)
                    return
                if opt == 2 and gid in refmsm.SIG_STRICT[pre] and lab == refmsm.SIG_STRICT[pre][gid]:
                    # the frequency-band option must not hand out the RINEX observation code itself
                    ctx.violation("band-option-yields-rinex-code", f"{identity}: under labelmsm=2 signal ID {gid} of "
                                  f"{refmsm.CONSTELLATION[pre]} is labelled {lab!r}, which is its RINEX code: the option "
                                  f"has no effect for this constellation", params)
                    return
                key = (opt, pre, gid)
                first = {k_: v_ for k_, v_ in params.items() if k_ in ("identity", "payload", "sibling")}
                old, first = ctx.labelmap.setdefault(key, (lab, first))
                if old != lab:
                    ctx.violation("label-not-a-function", f"{identity}: under labelmsm={opt} signal ID {gid} of "
                                  f"{refmsm.CONSTELLATION[pre]} is labelled {lab!r} here but {old!r} elsewhere",
                                  dict(params, first=first))
                    return
                ctx.hit("label_function_checked")
        ctx.hit("msm_compared")
        ctx.hit("cells_compared", len(cells))
        ctx.case(payload, len(cells) >= 1)
    else:
        ctx.hit("nonmsm_compared")
        ctx.case(payload, len(base) >= 3)


def broken_case(ctx, identity, payload):
    """A payload that does not decode (truncated): the option must not change HOW it fails."""
    from pyrtcm import RTCMMessage

    outs = {}
    for opt in OPTS:
        try:
            RTCMMessage(payload=payload, labelmsm=opt)
            outs[opt] = "ok"
        except Exception as e:
            outs[opt] = type(e).__name__
    ctx.hit("undecodable_payloads_compared")
    if len(set(outs.values())) > 1:
        ctx.violation("option-changes-failure", f"{identity}: a truncated payload ({len(payload)} bytes) ends differently "
                      f"under the label options: { {repr(k): v for k, v in outs.items()} }",
                      {"identity": identity, "payload": payload.hex(), "broken": True})


def run(ctx):
    rng = ctx.rng
    ctx.labelmap = {}
    ids = [i for i in refmodel.identities() if refmodel.reachable(i)]
    for k, identity in enumerate(ids):
        if not ctx.mine(k):
            continue
        msm = refmodel.is_msm_identity(identity)
        reps = (600 if msm else 60) if ctx.quick else (12000 if msm else 800)
        for j in range(reps):
            seedtag = rng.getrandbits(40)
            r2 = random.Random(seedtag)
            force = None
            if msm and j % 3 == 0:  # single signal bit alone incl. reserved IDs
                sat = sum(1 << b for b in r2.sample(range(64), r2.randint(1, 4)))
                force = {"DF394": sat, "DF395": 1 << (j // 3 % 32), "DF396": (1 << bin(sat).count("1")) - 1}
            ms = refmodel.MSTRATS[j % len(refmodel.MSTRATS)]
            try:
                enc = refmodel.build(identity, r2, r2.choice(refmodel.VSTRATS), "small", ms, force=force)
            except refmodel.DefinitionError:
                break
            extra = {}
            if msm and j % 4 == 1:
                others = [g + identity[3] for g in refmsm.CONSTELLATION if g != identity[:3]]
                try:
                    sib = refmodel.build(r2.choice(others), r2, "random", "small", "random",
                                         force={"DF394": enc.meta["satmask"], "DF395": enc.meta["sigmask"],
                                                "DF396": enc.meta["cellmask"]})
                    extra = {"sibling": sib.payload.hex()}
                except (refmodel.DefinitionError, KeyError):
                    pass
            check(ctx, identity, enc.payload, enc.meta,
                  dict({"identity": identity, "seedtag": seedtag, "j": j, "mstrat": ms, "payload": enc.payload.hex()},
                       **extra))
            if j % 10 == 0 and len(enc.payload) > 4:
                broken_case(ctx, identity, enc.payload[: r2.randint(3, len(enc.payload) - 1)])
    from vf import common

    for k_, (name_, fr_) in enumerate(common.recorded_frames()):
        if not ctx.mine(k_):
            continue
        pl_ = fr_[3:-3]
        ident_ = common.expected_identity(pl_)
        try:
            meta_ = refmodel.decode(ident_, pl_).meta
        except Exception:
            continue
        check(ctx, ident_, pl_, meta_, {"identity": ident_, "payload": pl_.hex(), "recorded": name_})
        ctx.hit("recorded_frames_checked")
    ctx.sample({"options": [0, 1, 2, True], "label_pairs_seen": len(ctx.labelmap),
                "example": [[list(map(str, k)), v[0]] for k, v in list(ctx.labelmap.items())[:6]]})


def replay(ctx, p):
    ctx.labelmap = {}
    payload = bytes.fromhex(p["payload"])
    if p.get("broken"):
        broken_case(ctx, p["identity"], payload)
        return
    if p.get("first") and p["first"].get("payload"):
        f_ = p["first"]
        try:
            check(ctx, f_["identity"], bytes.fromhex(f_["payload"]), refmodel.decode(f_["identity"], bytes.fromhex(f_["payload"])).meta, f_)
        except Exception:
            pass
    try:
        meta = refmodel.decode(p["identity"], payload).meta
    except Exception:
        meta = {}
    check(ctx, p["identity"], payload, meta, p)
