"""C13 - A parse result depends only on the bytes parsed, not on history or threads.

History-free oracle: vf.refmodel expectation (data values) + the result of the same parse at the
start of the run; every later parse of the same bytes - after arbitrary other parses, failing
parses, through many objects, and concurrently from several threads with forced switches inside
the parser (sys.monitoring LINE-level yield injection, switch interval 1e-6) - must give the same
outcome. Order-preserving digests of all definition / lookup tables must never change.
"""

import random
import sys
import threading

from vf import REPO_SRC, common, monitors, refcrc, refmodel, refmsm, streams

LEVEL = "exploration"
RULE = (
    "case = one parse operation (message constructor, static parser or reader) of a corpus entry under a history: "
    "random permutations of a corpus covering every defined identity (several strategies), unknown numbers, truncated "
    "messages, bad-CRC frames and too-short payloads, both label options; targeted histories (target after k failing "
    "parses, MSM after MSM of another constellation, 4076_201 after 1302, alternating label options, many objects kept "
    "alive); 2..16 threads parsing shuffled corpora with yield injection. distinct = blake2b(entry, predecessor entry, "
    "mode); non-trivial = the predecessor differs from the entry itself"
)
RULE += (
    ' Also: a fresh-interpreter baseline in reversed order, cold-start races (threads as the first use of'
    ' the library), twins through temporary buffers, several live readers with different options read'
    ' alternately, socket-backed readers, alias entries (defined body under an undefined neighbouring'
    ' number / sub-type), resume-after-error through one iterator, validate=0 / validate=1 twins back to'
    ' back, integer-hash twins (masks differing by 2**61-1), payloads of EVERY length 2..140 under every'
    ' identity, order-preserving digests of all definition / lookup tables at every stage.'
)
RULE += (
    " Also: MSM twins whose mask numbers read the same in decimal."
)
ASSUMPTIONS = [
    "refmodel expectation is history-free by construction; label values are taken from the first parse and "
    "cross-checked by C09",
    "thread interleavings are those the GIL permits; switches are forced between statements via sys.monitoring",
]
GATES = ["sequential_parses", "threaded_parses", "in_parser_thread_switches", "digest_checks", "failing_entries",
         "baseline_vs_refmodel", "fresh_process_baseline_compared", "baseline_labels_vs_pinned", "cold_start_races", "twin_pairs", "interleaved_reader_rounds"]


def outcome_ctor(payload, labelmsm):
    from pyrtcm import RTCMMessage

    try:
        m = RTCMMessage(payload=payload, labelmsm=labelmsm)
        return ("ok", m.identity, tuple((k, v) for k, v in m.__dict__.items() if not k.startswith("_")))
    except Exception as e:
        return ("err", type(e).__name__)


def outcome_parse(frame, labelmsm):
    from pyrtcm import RTCMReader

    try:
        m = RTCMReader.parse(frame, validate=1, labelmsm=labelmsm)
        return ("ok", m.identity, tuple((k, v) for k, v in m.__dict__.items() if not k.startswith("_")))
    except Exception as e:
        return ("err", type(e).__name__)


def outcome_reader(frame, labelmsm):
    import io

    from pyrtcm import RTCMReader

    try:
        out = []
        for raw, m in RTCMReader(io.BytesIO(frame), validate=1, quitonerror=2, labelmsm=labelmsm):
            out.append(("ok", m.identity, tuple((k, v) for k, v in m.__dict__.items() if not k.startswith("_"))))
        return out[0] if len(out) == 1 else ("n", len(out))
    except Exception as e:
        return ("err", type(e).__name__)


def outcome_parse_tmp(frame, labelmsm):
    """Static parse of a TEMPORARY copy of the buffer (freed right after the call): object identity /
    address reuse between consecutive calls must not matter."""
    from pyrtcm import RTCMReader

    try:
        m = RTCMReader.parse(bytes(bytearray(frame)), validate=1, labelmsm=labelmsm)
        return ("ok", m.identity, tuple((k, v) for k, v in m.__dict__.items() if not k.startswith("_")))
    except Exception as e:
        return ("err", type(e).__name__)


def outcome_reader_tmp(frame, labelmsm):
    """Reader used as `parsed = rdr.read()[1]` (the raw buffer is dropped at once) over a copy of the data."""
    import io

    from pyrtcm import RTCMReader

    try:
        rdr = RTCMReader(io.BytesIO(bytes(bytearray(frame))), validate=1, quitonerror=2, labelmsm=labelmsm)
        m = rdr.read()[1]
        if m is None:
            return ("n", 0)
        return ("ok", m.identity, tuple((k, v) for k, v in m.__dict__.items() if not k.startswith("_")))
    except Exception as e:
        return ("err", type(e).__name__)


def outcome_sockreader(frame, labelmsm):
    """The frame read through a socket-backed reader (a new reader and a new socket every time: reconnects)."""
    from pyrtcm import RTCMReader

    from vf import doubles

    sock = doubles.ScriptedSocket(frame, [max(1, len(frame) // 2), 2], budget=4 * len(frame) + 64)
    try:
        out = []
        for raw, m in RTCMReader(sock, validate=1, quitonerror=2, labelmsm=labelmsm):
            out.append(("ok", m.identity, tuple((k, v) for k, v in m.__dict__.items() if not k.startswith("_"))))
        return out[0] if len(out) == 1 else ("n", len(out))
    except Exception as e:
        return ("err", type(e).__name__)
    finally:
        sock.close()


def outcome_reader_resume(data, labelmsm):
    """`data` = one damaged frame followed by one good frame; a raise-mode reader is consumed through ONE iterator
    object: the error for the first frame is caught, then the SAME iterator is asked for the next message."""
    import io

    from pyrtcm import RTCMReader

    it = iter(RTCMReader(io.BytesIO(data), validate=1, quitonerror=2, labelmsm=labelmsm))
    try:
        next(it)
        return ("n", "first frame was not refused")
    except StopIteration:
        return ("n", 0)
    except Exception:
        pass
    try:
        raw, m = next(it)
        return ("ok", m.identity, tuple((k, v) for k, v in m.__dict__.items() if not k.startswith("_")))
    except StopIteration:
        return ("n", 0)
    except Exception as e:
        return ("err", type(e).__name__)


def outcome_reader_second(data, labelmsm):
    """`data` = a good frame directly followed by ITS OWN COPY with damaged checksum bytes, through one validating
    raise-mode reader: the outcome reported is that of the SECOND item."""
    import io

    from pyrtcm import RTCMReader

    it = iter(RTCMReader(io.BytesIO(data), validate=1, quitonerror=2, labelmsm=labelmsm))
    try:
        next(it)
    except Exception:
        return ("n", "first frame refused")
    try:
        raw, m = next(it)
        return ("ok", m.identity, tuple((k, v) for k, v in m.__dict__.items() if not k.startswith("_")))
    except StopIteration:
        return ("n", 0)
    except Exception as e:
        return ("err", type(e).__name__)


def outcome_parse_v0(frame, labelmsm):
    """Static parse with validation OFF (accepts wrong checksum bytes)."""
    from pyrtcm import RTCMReader

    try:
        m = RTCMReader.parse(frame, validate=0, labelmsm=labelmsm)
        return ("ok", m.identity, tuple((k, v) for k, v in m.__dict__.items() if not k.startswith("_")))
    except Exception as e:
        return ("err", type(e).__name__)


OPS = {"ctor": outcome_ctor, "parse": outcome_parse, "reader": outcome_reader, "parse_tmp": outcome_parse_tmp,
       "reader_tmp": outcome_reader_tmp, "sockreader": outcome_sockreader, "reader_resume": outcome_reader_resume,
       "parse_v0": outcome_parse_v0, "reader_second": outcome_reader_second}


def same(a, b):
    if a[0] != b[0]:
        return False
    if a[0] != "ok":
        return a == b
    if a[1] != b[1] or len(a[2]) != len(b[2]):
        return False
    return all(n1 == n2 and refmodel.values_equal(v1, v2) for (n1, v1), (n2, v2) in zip(a[2], b[2]))


def build_corpus(seed, per_identity):
    """Deterministic corpus: list of dict(op, data, labelmsm, tag, enc)."""
    rng = random.Random(seed)
    ids = [i for i in refmodel.identities() if refmodel.reachable(i)]
    corpus = []
    for identity in ids:
        for j in range(per_identity):
            try:
                enc = refmodel.build(identity, rng, rng.choice(refmodel.VSTRATS), rng.choice(("small", "one", "small")),
                                     rng.choice(refmodel.MSTRATS))
            except refmodel.DefinitionError:
                break
            lm = rng.choice((1, 2)) if refmodel.is_msm_identity(identity) else 1
            op = ("ctor", "parse", "reader", "sockreader")[(j + rng.randrange(2) * 2) % 4]
            data = enc.payload if op == "ctor" else refcrc.frame(enc.payload)
            corpus.append(dict(op=op, data=data, labelmsm=lm, tag=identity, enc=enc, fails=False))
            if j == 0 and len(enc.payload) > 4:
                cut = enc.payload[: rng.randint(3, len(enc.payload) - 1)]
                corpus.append(dict(op="ctor", data=cut, labelmsm=1, tag=identity + ":cut", enc=None, fails=True))
    # minimal-length (all counts zero) message of every identity: shortest valid payloads of each type
    for identity in ids:
        try:
            enc = refmodel.build(identity, rng, "random", "zero", "empty")
        except refmodel.DefinitionError:
            continue
        corpus.append(dict(op=rng.choice(("ctor", "parse")), data=enc.payload if corpus and False else enc.payload,
                           labelmsm=1, tag=identity, enc=enc, fails=False))
        if corpus[-1]["op"] == "parse":
            corpus[-1]["data"] = refcrc.frame(enc.payload)
    # ALIASES of defined identities: the body of a valid message under a message number / 4076 sub-type that differs
    # in one bit and has no definition (a stub is expected), so that defined and undefined neighbours meet in one process
    defs = set(refmodel.identities())
    fam = [i for i in ids if i.startswith("4076_")]
    for identity in fam + rng.sample([i for i in ids if not i.startswith("4076_")], 40):
        try:
            enc = refmodel.build(identity, rng, "random", "small", "random")
        except refmodel.DefinitionError:
            continue
        p = enc.payload
        for _ in range(2):
            bit = rng.randrange(8 if identity in fam else 12)
            if identity in fam:
                sub = int(identity[5:]) ^ (1 << bit)
                alias = f"4076_{sub:03d}"
                v = int.from_bytes(p[:3], "big")
                v = (v & ~(0xFF << 1)) | (sub << 1)
                q = v.to_bytes(3, "big") + p[3:]
            else:
                num = int(identity) ^ (1 << bit)
                alias = str(num)
                q = bytes([num >> 4, ((num & 0xF) << 4) | (p[1] & 0x0F)]) + p[2:]
            if alias in defs or alias == "4076":
                continue
            corpus.append(dict(op=rng.choice(("ctor", "parse")), data=q, labelmsm=1, tag="alias:" + alias + "<" + identity,
                               enc=None, fails=False))
            if corpus[-1]["op"] == "parse":
                corpus[-1]["data"] = refcrc.frame(q)
    # readers in raise mode over streams that start with sync-like garbage (state must not leak into the next reader)
    for junk in (b"\xd3\xd3", b"\xd3$", b"\xd3\xb5", b"\xb5\xd3", b"$\xd3", b"\xd3\xff\xd3", b"\xb5\x62\x01"):
        fr = refcrc.frame(streams.rand_defined_payload(rng, "1005"))
        corpus.append(dict(op="reader", data=junk + fr, labelmsm=1, tag="junk-then-frame", enc=None, fails=True))
    # same shape, different content: pairs of MSM messages with equal NSat/NSig but different masks
    for pre in refmsm.CONSTELLATION:
        for nsat, nsig in ((1, 1), (12, 3), (50, 1), (64, 1), (2, 32)):
            for _ in range(2):
                identity = pre + rng.choice("1234567")
                sat = sum(1 << b for b in rng.sample(range(64), nsat))
                sig = sum(1 << b for b in rng.sample(range(32), nsig))
                try:
                    enc = refmodel.build(identity, rng, "random", "small", "random",
                                         force={"DF394": sat, "DF395": sig, "DF396": rng.getrandbits(nsat * nsig) | 1})
                except (refmodel.DefinitionError, KeyError):
                    continue
                lm = rng.choice((1, 2))
                corpus.append(dict(op="ctor", data=enc.payload, labelmsm=lm, tag=identity, enc=enc, fails=False))
    # twins whose 64-bit masks differ by 2**61 - 1: equal under Python's integer hash, different as masks (anything
    # memoised on hash(...) of the masks instead of on the masks would confuse the two)
    M61 = (1 << 61) - 1
    for pre in refmsm.CONSTELLATION:
        identity = pre + rng.choice("4567")
        sat = sum(1 << b for b in rng.sample(range(64), 16))
        sig = sum(1 << b for b in rng.sample(range(32), 4))
        cm = (rng.getrandbits(61) | 1) & ~(7 << 61)
        for cmask in (cm, cm + M61, cm + 2 * M61):
            try:
                enc = refmodel.build(identity, rng, "random", "small", "random",
                                     force={"DF394": sat, "DF395": sig, "DF396": cmask})
            except (refmodel.DefinitionError, KeyError):
                continue
            corpus.append(dict(op="ctor", data=enc.payload, labelmsm=1, tag=identity + ":hash-twin", enc=enc, fails=False))
        smask = rng.getrandbits(60) | 1
        for sm in (smask, smask + M61):
            try:
                enc = refmodel.build(pre + "1", rng, "random", "small", "random",
                                     force={"DF394": sm, "DF395": 1 << rng.randrange(32), "DF396": (1 << 64) - 1})
            except (refmodel.DefinitionError, KeyError):
                continue
            corpus.append(dict(op="ctor", data=enc.payload, labelmsm=1, tag=pre + "1:hash-twin", enc=enc, fails=False))
    # twins whose mask NUMBERS read the same when written one after the other in decimal without separators
    # (satellite mask 1 / signal mask 64 vs 16 / 4): anything keyed on a concatenated text of the masks confuses them
    for pre in list(refmsm.CONSTELLATION)[:4]:
        for a1, g1, a2, g2 in ((1, 64, 16, 4), (12, 8, 1, 28), (2, 56, 25, 6), (130, 2, 1, 302)):
            for sm, gm in ((a1, g1), (a2, g2)):
                w = bin(sm).count("1") * bin(gm).count("1")
                try:
                    enc = refmodel.build(pre + "4", rng, "random", "small", "random",
                                         force={"DF394": sm, "DF395": gm, "DF396": 1 if w else 0})
                except (refmodel.DefinitionError, KeyError):
                    continue
                corpus.append(dict(op="ctor", data=enc.payload, labelmsm=1, tag=pre + "4:hash-twin", enc=enc, fails=False))
    # the largest MSM messages (64 satellites x 1 signal, all cells)
    for pre in refmsm.CONSTELLATION:
        for lvl in "57":
            try:
                enc = refmodel.build(pre + lvl, rng, "random", "small", "random",
                                     force={"DF394": (1 << 64) - 1, "DF395": 1 << rng.randrange(32),
                                            "DF396": (1 << 64) - 1})
            except (refmodel.DefinitionError, KeyError):
                continue
            corpus.append(dict(op="ctor", data=enc.payload, labelmsm=1, tag=pre + lvl, enc=enc, fails=False))
    # maximum-size messages
    for identity in rng.sample(ids, min(len(ids), 40)):
        try:
            enc = refmodel.build(identity, rng, "random", "max", "dense")
        except refmodel.DefinitionError:
            continue
        corpus.append(dict(op="ctor", data=enc.payload, labelmsm=1, tag=identity, enc=enc, fails=False))
    for _ in range(30):
        p = streams.rand_unknown_payload(rng)
        corpus.append(dict(op="ctor", data=p, labelmsm=1, tag="unknown", enc=None, fails=False))
        fr = refcrc.frame(streams.rand_defined_payload(rng))
        bad = fr[:-1] + bytes([fr[-1] ^ 0x40])
        corpus.append(dict(op="parse", data=bad, labelmsm=1, tag="badcrc", enc=None, fails=True))
    # equal-size good / corrupt twins, parsed through temporary buffers
    for _ in range(24):
        fr = refcrc.frame(streams.rand_defined_payload(rng, rng.choice(("1005", "1006", "1019", "1230"))))
        bad = fr[:-2] + bytes([fr[-2] ^ 0x10]) + fr[-1:]
        op = rng.choice(("parse_tmp", "reader_tmp"))
        corpus.append(dict(op=op, data=fr, labelmsm=1, tag="twin-good", enc=None, fails=False))
        corpus.append(dict(op=op, data=bad, labelmsm=1, tag="twin-bad", enc=None, fails=True))
    # a damaged frame, then a good one, consumed through one iterator in raise mode; the history-free result of the
    # good frame is what the constructor gives for its payload
    for _ in range(16):
        good = refcrc.frame(streams.rand_defined_payload(rng))
        other = refcrc.frame(streams.rand_defined_payload(rng))
        bad = other[:-1] + bytes([other[-1] ^ 0x21])
        corpus.append(dict(op="reader_resume", data=bad + good, labelmsm=1, tag="resume-after-error", enc=None,
                           fails=False, base_op="ctor", base_data=good[3:-3]))
    # a good frame and right behind it its copy with damaged checksum bytes, through one validating reader: the copy
    # is refused exactly as it is when it arrives alone
    for _ in range(12):
        good = refcrc.frame(streams.rand_defined_payload(rng, rng.choice(("1005", "1006", "1033", "1230", "1007"))))
        bad = good[:-3] + bytes([good[-3] ^ 0x40, good[-2], good[-1] ^ 0x01])
        corpus.append(dict(op="reader_second", data=good + bad, labelmsm=1, tag="copy-with-bad-crc", enc=None,
                           fails=True, base_op="reader", base_data=bad))
    # the same wrong-checksum frame with validation off (accepted) and on (refused), to be run back to back
    for _ in range(12):
        fr = refcrc.frame(streams.rand_defined_payload(rng))
        bad = fr[:-1] + bytes([fr[-1] ^ 0x08])
        corpus.append(dict(op="parse_v0", data=bad, labelmsm=1, tag="v0-twin", enc=None, fails=False))
        corpus.append(dict(op="parse", data=bad, labelmsm=1, tag="v1-twin", enc=None, fails=True))
    # frames of the repository's recorded logs (realistic content and repetition)
    from vf import common as _c

    for name_, fr_ in _c.recorded_frames():
        short_ = False
        try:
            id_ = _c.expected_identity(fr_[3:-3])
            if id_ in refmodel.identities():
                refmodel.decode(id_, fr_[3:-3])
        except refmodel.Short:
            short_ = True  # (one log holds CRC-valid 1302 frames that are too short for their type)
        except Exception:
            pass
        corpus.append(dict(op=rng.choice(("parse", "reader", "ctor")), data=fr_, labelmsm=rng.choice((1, 2)),
                           tag="recorded", enc=None, fails=short_))
        if corpus[-1]["op"] == "ctor":
            corpus[-1]["data"] = fr_[3:-3]
    for p in (b"", b"\x3e", b"\xfe\xc0", b"\x43\x50"):
        corpus.append(dict(op="ctor", data=p, labelmsm=1, tag="short", enc=None, fails=True))
    return corpus


def outcome_hash(o):
    import hashlib

    def norm(v):
        return round(v, 9) if isinstance(v, float) else v

    if o[0] == "ok":
        o = (o[0], o[1], tuple((k, norm(v)) for k, v in o[2]))
    return hashlib.blake2b(repr(o).encode(), digest_size=8).hexdigest()


def fresh_baseline(ctx, reverse):
    """Outcome hashes of every corpus entry computed by a fresh interpreter in another order."""
    import json
    import os
    import subprocess

    from vf import VERIF_DIR

    code = (
        "import sys, json; sys.path.insert(0, %r); import vf; from vf.checks import c13; "
        "c = c13.build_corpus(%d, %d); order = list(range(len(c)))[::-1] if %r else list(range(len(c))); "
        "out = [None] * len(c)\n"
        "for i in order: out[i] = c13.outcome_hash(c13.OPS[c[i]['op']](c[i]['data'], c[i]['labelmsm']))\n"
        "print(json.dumps(out))" % (VERIF_DIR, ctx.seed * 101 + 17, 2 if ctx.quick else 6, reverse))
    env = dict(os.environ)
    try:
        r = subprocess.run([sys.executable, "-B", "-c", code], capture_output=True, text=True, timeout=600, env=env)
        if r.returncode != 0:
            ctx.note("fresh_baseline_error", r.stderr[-300:])
            return None
        return json.loads(r.stdout.strip().splitlines()[-1])
    except Exception as e:  # harness trouble: reported, never a verdict
        ctx.note("fresh_baseline_error", repr(e))
        return None


def fresh_single(ctx, index):
    import subprocess

    from vf import VERIF_DIR

    code = (
        "import sys; sys.path.insert(0, %r); import vf; from vf.checks import c13; "
        "c = c13.build_corpus(%d, %d); e = c[%d]; print(c13.outcome_hash(c13.OPS[e['op']](e['data'], e['labelmsm'])))"
        % (VERIF_DIR, ctx.seed * 101 + 17, 2 if ctx.quick else 6, index))
    try:
        r = subprocess.run([sys.executable, "-B", "-c", code], capture_output=True, text=True, timeout=600)
        return r.stdout.strip().splitlines()[-1] if r.returncode == 0 else None
    except Exception:
        return None


def cold_start_race(ctx, k, nthreads=8):
    """Concurrent parses as the very FIRST use of the library in a fresh interpreter (lazily built
    state must be race-free too). Returns list of (entry index, outcome hash) or None."""
    import json
    import subprocess

    from vf import REPO_SRC, VERIF_DIR

    code = f"""
import sys, json, random, threading
sys.path.insert(0, {VERIF_DIR!r})
import vf
from vf import monitors
from vf.checks import c13
c = c13.build_corpus({ctx.seed * 101 + 17}, {2 if ctx.quick else 6})
r = random.Random({k})
picks = [r.sample(range(len(c)), 24) for _ in range({nthreads})]
out = []
lock = threading.Lock()
bar = threading.Barrier({nthreads})
def work(idxs):
    bar.wait()
    for i in idxs:
        h = c13.outcome_hash(c13.OPS[c[i]['op']](c[i]['data'], c[i]['labelmsm']))
        with lock:
            out.append((i, h))
sys.setswitchinterval(1e-6)
inj = monitors.YieldInjector({REPO_SRC!r}, random.Random({k} + 1), prob=0.03)
inj.start()
ths = [threading.Thread(target=work, args=(p,)) for p in picks]
[t.start() for t in ths]
[t.join() for t in ths]
inj.stop()
print(json.dumps({{"out": out, "switches": inj.switches}}))
"""
    try:
        r = subprocess.run([sys.executable, "-B", "-c", code], capture_output=True, text=True, timeout=900)
        if r.returncode != 0:
            ctx.note("cold_start_error", r.stderr[-300:])
            return None
        return json.loads(r.stdout.strip().splitlines()[-1])
    except Exception as e:
        ctx.note("cold_start_error", repr(e))
        return None


def check_digest(ctx, ref, where):
    per, whole = monitors.table_digest()
    ctx.hit("digest_checks")
    if whole != ref[1]:
        changed = [k for k in per if per[k] != ref[0].get(k)]
        ctx.violation("tables-modified", f"definition/lookup tables changed {where}: {changed[:5]}",
                      {"kind": "digest", "where": where})
        return False
    return True


def run(ctx):
    common.quiet_logging()
    rng = ctx.rng
    corpus = build_corpus(ctx.seed * 101 + 17, 2 if ctx.quick else 6)
    ctx.note("corpus_entries", len(corpus))
    digest0 = monitors.table_digest()
    # ---- baseline (first parse, fixed order) + cross-check with refmodel
    base = []
    for e in corpus:
        o = OPS[e.get("base_op", e["op"])](e.get("base_data", e["data"]), e["labelmsm"])
        base.append(o)
        if e["fails"]:
            ctx.hit("failing_entries")
        if e["enc"] is not None:
            bad = None
            if o[0] != "ok":
                bad = f"parse failed: {o}"
            else:
                exp = e["enc"].expected_dict()
                got = dict(o[2])
                for n, (v) in exp.items():
                    if isinstance(v, tuple):
                        continue  # label
                    if n not in got or not refmodel.values_equal(got[n], v):
                        bad = f"attribute {n} = {got.get(n)!r}, bits encode {v!r}"
                        break
            if bad:
                # history or not? the same single parse in a fresh interpreter decides
                alone = fresh_single(ctx, len(base) - 1)
                if alone is not None and alone != outcome_hash(o):
                    ctx.violation("history-dependence", f"{e['tag']}: first-pass result ({bad}) differs from the same "
                                  f"parse alone in a fresh process", {"kind": "baseline", "tag": e["tag"]})
                    return
                ctx.hit("entry_wrong_without_history(C03-matter)")
                e["enc"] = None
                continue
            ctx.hit("baseline_vs_refmodel")
    if not check_digest(ctx, digest0, "after the baseline pass"):
        return
    n = len(corpus)
    # RINEX labels of the baseline are validated against the pinned tables (history-free)
    for e, o in zip(corpus, base):
        if o[0] == "ok" and e["labelmsm"] == 1 and e["enc"] is not None and "cells" in e["enc"].meta:
            got = dict(o[2])
            for k, (sid, gid) in enumerate(e["enc"].meta["cells"], 1):
                if not refmsm.sig_ok(e["tag"][:3], gid, got.get(f"CELLSIG_{k:02d}")) or not refmsm.prn_ok(
                        e["tag"][:3], sid, got.get(f"CELLPRN_{k:02d}")):
                    ctx.violation("history-dependence", f"{e['tag']} labelmsm=1: CELLSIG_{k:02d}="
                                  f"{got.get(f'CELLSIG_{k:02d}')!r} / CELLPRN={got.get(f'CELLPRN_{k:02d}')!r} for cell "
                                  f"(sat {sid}, signal {gid}) in the first pass (state left by an earlier parse?)",
                                  {"kind": "baseline-labels", "tag": e["tag"]})
                    return
            ctx.hit("baseline_labels_vs_pinned")
    # second, independent baseline: a FRESH interpreter parses the corpus in REVERSED order
    other = fresh_baseline(ctx, reverse=True)
    if other is None:
        ctx.note("fresh_process_baseline", "unavailable")
    else:
        for i, (o, h) in enumerate(zip(base, other)):
            if outcome_hash(o) != h:
                e = corpus[i]
                ctx.violation("history-dependence", f"{e['op']}({e['tag']}, labelmsm={e['labelmsm']}): outcome in this "
                              f"process (corpus order) differs from a fresh process parsing the corpus in reversed order",
                              {"kind": "fresh-baseline", "entry": i, "tag": e["tag"]})
                return
            ctx.hit("fresh_process_baseline_compared")

    def verify(i, prev, how):
        e = corpus[i]
        o = OPS[e["op"]](e["data"], e["labelmsm"])
        if not same(o, base[i]):
            diff = ""
            if o[0] == "ok" and base[i][0] == "ok":
                d = [(a, b) for a, b in zip(o[2], base[i][2]) if a != b][:3]
                diff = f" first differences {d}; lengths {len(o[2])}/{len(base[i][2])}"
            ctx.violation("history-dependence" if how != "thread" else "thread-dependence",
                          f"{e['op']}({e['tag']}, labelmsm={e['labelmsm']}) after {corpus[prev]['tag'] if prev is not None else '-'}"
                          f" [{how}]: outcome {o[0:2]} vs history-free {base[i][0:2]}{diff}",
                          {"kind": how, "entry": i, "prev": prev, "tag": e["tag"]})
            return False
        return True

    by_tag_first = {}
    for i_, e_ in enumerate(corpus):
        if e_["enc"] is not None:
            by_tag_first.setdefault(e_["tag"], i_)
    # ---- sequential histories
    keep = []
    rounds = 3 if ctx.quick else 25
    for r_ in range(rounds):
        order = list(range(n))
        rng.shuffle(order)
        prev = None
        for i in order:
            if not verify(i, prev, "permutation"):
                return
            ctx.hit("sequential_parses")
            ctx.case(f"{i}|{prev}|seq", prev != i)
            prev = i
        if not check_digest(ctx, digest0, f"after permutation {r_}"):
            return
    # every payload LENGTH 2..140 under every defined identity (header of the type, arbitrary body; most are refused):
    # whatever special cases exist for particular sizes, they must leave tables and later parses alone
    from pyrtcm import RTCMMessage as _RM

    idents = [i for i in refmodel.identities() if refmodel.reachable(i)]
    for k_, identity in enumerate(idents):
        if not ctx.mine(k_):
            continue
        hdr = streams.header_bytes(4076, int(identity[5:])) if identity.startswith("4076") else streams.header_bytes(
            int(identity))
        for ln in range(len(hdr), 141):
            body = bytes(rng.getrandbits(8) for _ in range(ln - len(hdr)))
            try:
                _RM(payload=hdr[:-1] + bytes([hdr[-1] | (body[0] & 1 if body else 0)]) + body[0:0] + body)
            except Exception:
                pass
        ctx.hit("length_sweeps")
        with_tag = by_tag_first.get(identity)
        if with_tag is not None and not verify(with_tag, None, "after-length-sweep"):
            return
    if not check_digest(ctx, digest0, "after the length sweeps"):
        return
    # targeted: target after k failing parses; MSM after MSM of another constellation; 4076_201 after 1302
    fails = [i for i, e in enumerate(corpus) if e["fails"]]
    msm = [i for i, e in enumerate(corpus) if refmodel.is_msm_identity(e["tag"])]
    by_tag = {}
    for i, e in enumerate(corpus):
        by_tag.setdefault(e["tag"], []).append(i)
    for _ in range(300 if ctx.quick else 6000):
        t = rng.randrange(n)
        k = rng.randint(1, 4)
        prev = None
        for _ in range(k):
            prev = rng.choice(fails)
            if not verify(prev, None, "targeted"):
                return
        if not verify(t, prev, "after-failures"):
            return
        ctx.hit("sequential_parses", k + 1)
        ctx.case(f"{t}|{prev}|fail{k}", True)
    for _ in range(300 if ctx.quick else 6000):
        a, b = rng.sample(msm, 2)
        if not verify(a, None, "targeted") or not verify(b, a, "msm-after-msm") or not verify(a, b, "msm-after-msm"):
            return
        ctx.hit("sequential_parses", 3)
        ctx.case(f"{a}|{b}|msm", True)
    for pair in (("1302", "4076_201"), ("4076_201", "1302"), ("1029", "1300"), ("1230", "1033"), ("1059", "4076_026")):
        for a in by_tag.get(pair[0], []):
            for b in by_tag.get(pair[1], []):
                if not verify(a, None, "targeted") or not verify(b, a, "pair") or not verify(a, b, "pair"):
                    return
                ctx.hit("sequential_parses", 3)
    # good twin then corrupt twin of the same size, back to back through temporary buffers
    v0 = [i for i, e in enumerate(corpus) if e["tag"] == "v0-twin"]
    for _ in range(5 if ctx.quick else 100):
        for i in v0:
            # accepted without validation, then the very same bytes with validation on, then the other way round
            if not verify(i, None, "twins") or not verify(i + 1, i, "validate1-after-validate0") or not verify(
                    i, i + 1, "validate0-after-validate1"):
                return
            ctx.hit("sequential_parses", 3)
            ctx.hit("validate_twin_pairs")
    ht = [i for i, e in enumerate(corpus) if e["tag"].endswith(":hash-twin")]
    for _ in range(3 if ctx.quick else 60):
        for a, b in zip(ht, ht[1:]):
            if corpus[a]["tag"] == corpus[b]["tag"]:
                if not verify(a, None, "targeted") or not verify(b, a, "hash-twin") or not verify(a, b, "hash-twin"):
                    return
                ctx.hit("sequential_parses", 3)
                ctx.hit("hash_twin_pairs")
    twins = [i for i, e in enumerate(corpus) if e["tag"] == "twin-good"]
    for _ in range(20 if ctx.quick else 400):
        for i in twins:
            if not verify(i, None, "twins") or not verify(i + 1, i, "twin-after-twin"):
                return
            ctx.hit("sequential_parses", 2)
            ctx.hit("twin_pairs")
    # several reader objects ALIVE at once with different options, read alternately: each frame's outcome must be
    # the one its own reader's options give on their own
    import io as _io

    from pyrtcm import RTCMReader as _RR

    frames_ok = [i for i, e in enumerate(corpus) if e["op"] in ("parse", "reader") and not e["fails"]
                 and isinstance(base[i], tuple) and base[i][0] == "ok"]
    for _ in range(30 if ctx.quick else 600):
        picks = rng.sample(frames_ok, min(len(frames_ok), 6))
        opts = [(1, 1), (2, 1), (2, 0), (1, 0)]
        rng.shuffle(opts)
        readers = []
        for (lm, va) in opts[: rng.randint(2, 4)]:
            data = b"".join(corpus[i]["data"] for i in picks)
            readers.append((lm, _RR(_io.BytesIO(data), labelmsm=lm, validate=va, quitonerror=2)))
        for k, i in enumerate(picks):
            for lm, rd in readers:
                try:
                    raw, m = rd.read()
                    o = ("ok", m.identity, tuple((a, b) for a, b in m.__dict__.items() if not a.startswith("_")))
                except Exception as e:
                    o = ("err", type(e).__name__)
                want = outcome_ctor(corpus[i]["data"][3:-3], lm)
                if not same(o, want):
                    ctx.violation("history-dependence", f"reader with labelmsm={lm} interleaved with {len(readers) - 1} other "
                                  f"live reader(s) using other options: frame {corpus[i]['tag']} decodes differently from "
                                  f"the same payload parsed alone with labelmsm={lm}",
                                  {"kind": "interleaved-readers", "tag": corpus[i]["tag"]})
                    return
        ctx.hit("interleaved_reader_rounds")
    # many objects alive
    from pyrtcm import RTCMMessage

    for i in rng.sample(range(n), min(n, 200)):
        e = corpus[i]
        if e["op"] == "ctor" and not e["fails"]:
            try:
                keep.append(RTCMMessage(payload=e["data"], labelmsm=e["labelmsm"]))
            except Exception:
                continue
            if not verify(rng.randrange(n), i, "objects-alive"):
                return
    if not check_digest(ctx, digest0, "after targeted histories"):
        return
    # ---- threads with yield injection
    errors = []
    lock = threading.Lock()

    def worker(seed, rounds_):
        r = random.Random(seed)
        for _ in range(rounds_):
            order = r.sample(range(n), min(n, 120))
            prev = None
            for i in order:
                e = corpus[i]
                o = OPS[e["op"]](e["data"], e["labelmsm"])
                if not same(o, base[i]):
                    with lock:
                        errors.append((i, prev, o[0:2]))
                    return
                prev = i
            with lock:
                counts[0] += len(order)

    counts = [0]
    old_si = sys.getswitchinterval()
    sys.setswitchinterval(1e-6)
    inj = monitors.YieldInjector(REPO_SRC, random.Random(ctx.seed + ctx.worker), prob=0.01)
    started = inj.start()
    try:
        for nthreads in ((2, 8) if ctx.quick else (2, 4, 8, 16, 16, 8)):
            ths = [threading.Thread(target=worker, args=(rng.getrandbits(32), 1 if ctx.quick else 3))
                   for _ in range(nthreads)]
            for t in ths:
                t.start()
            for t in ths:
                t.join()
            if errors:
                break
    finally:
        inj.stop()
        sys.setswitchinterval(old_si)
    ctx.hit("threaded_parses", counts[0])
    ctx.hit("in_parser_thread_switches", inj.switches)
    ctx.hit("yield_injections", inj.yields)
    ctx.hit("line_events_in_parser", inj.events)
    ctx.note("yield_injector_started", started)
    if errors:
        i, prev, o = errors[0]
        e = corpus[i]
        ctx.violation("thread-dependence", f"{e['op']}({e['tag']}) in a thread (after {corpus[prev]['tag'] if prev is not None else '-'}): "
                      f"outcome {o} vs history-free {base[i][0:2]}", {"kind": "thread", "entry": i, "tag": e["tag"]})
        return
    ctx.case(f"threads|{counts[0]}|{ctx.worker}", True)
    # cold-start races: fresh interpreters whose first library calls are concurrent
    for j in range(2 if ctx.quick else 10):
        res = cold_start_race(ctx, ctx.seed * 1000 + ctx.worker * 50 + j)
        if res is None:
            continue
        for i, h in res["out"]:
            if h != outcome_hash(base[i]):
                e = corpus[i]
                ctx.violation("thread-dependence", f"{e['op']}({e['tag']}) parsed concurrently as the first use of the "
                              f"library in a fresh interpreter differs from the history-free result",
                              {"kind": "cold-start", "entry": i, "tag": e["tag"]})
                return
        ctx.hit("cold_start_races")
        ctx.hit("cold_start_parses", len(res["out"]))
        ctx.hit("in_parser_thread_switches", res["switches"])
    if not check_digest(ctx, digest0, "after the threaded phase"):
        return
    ctx.sample({"corpus_entries": n, "ops": sorted(OPS), "threads": [2, 8] if ctx.quick else [2, 4, 8, 16],
                "in_parser_switches": inj.switches, "example_entry": {"tag": corpus[0]["tag"], "op": corpus[0]["op"],
                                                                      "data_hex": corpus[0]["data"][:24].hex()}})


def replay(ctx, p):
    # histories are regenerated from the seed: re-run the whole (quick) workload single-worker
    run(ctx)
