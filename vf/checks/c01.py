"""C01 - Reader delivers only intact, exactly-delimited RTCM3 frames.

Boundary monitor: every (raw, parsed) returned by RTCMReader.read() over a fault-injecting
recording stream is checked offline against the source bytes (greedy non-overlapping in-order
slice matching), an independent well-formedness test (own CRC) and own header arithmetic.
"""

import random

from vf import common, doubles, refcrc, streams

LEVEL = "fault_enumeration"
RULE = (
    "case = (hostile byte stream, fault plan over the stream's read calls, error mode); streams mix "
    "valid frames, bit-damaged frames (incl. header damage), truncated frames, CRC-valid pseudo-frames "
    "with non-zero reserved bits, NMEA/UBX, noise dense in D3/B5/24 and the repository's recorded logs; "
    "fault plans: none, ONE fault of each kind at EVERY read-call index (enumeration), random mixes. "
    "distinct = blake2b(stream, plan, mode); non-trivial = at least one frame was delivered and checked "
    "and the stream holds at least one non-frame item or a fault was applied"
)
RULE += (
    ' Also in the streams: frame-shaped pseudo-frames with a wide length field, length-lie frames (fewer /'
    ' more bytes than announced, trailer valid for the bytes present) with DIRECTED consecutive faults on'
    ' their payload read, CRC colliders, frames used as payloads, exact and damaged repeats, a valid frame'
    ' whose halves are never contiguous, header|payload|stray bytes|trailer blocks (stray = inert or'
    ' CR/LF) with 2-3 consecutive short reads and with a TCP segment ending exactly behind the payload,'
    " F1|X blocks where X's trailer is valid for a buffered prefix of F1 plus X with a failing read inside"
    ' F1, frames with steered checksum bytes; socket-backed runs with timeouts / OS errors; 40 % of the'
    ' defined messages are laid out from the pinned layouts.'
)
ASSUMPTIONS = [
    "the stream double implements read(n)/readline() like a file object; faults are short reads, "
    "empty reads with data remaining, premature EOF and partial lines",
    "slice matching is greedy earliest-occurrence (sound for 'non-overlapping slices in stream order')",
]
GATES = ["frames_checked", "delivered_after_fault", "plans_enumerated", "directed_double_faults", "directed_consecutive_shorts", "directed_socket_segment_before_stray",
         "directed_fault_inside_frame_before_glued_twin", "socket_runs",
         "socket_delivered_with_faults"]
GATES_ZERO = ["budget_exceeded"]


def make_stream(rng, small=False, marks=None):
    """Returns (data, has_foreign). marks (optional list) receives (kind, start offset, info)."""
    n = rng.randint(3, 7) if small else rng.randint(5, 16)
    parts = []
    foreign = False
    valid = []  # valid frames emitted so far (for repeats / damaged repeats / CRC colliders)
    for _ in range(n):
        k = rng.random()
        kk = rng.random()
        if valid and kk < 0.10:  # exact repeat of an earlier frame (static messages repeat verbatim)
            parts.append(rng.choice(valid))
            continue
        if valid and 0.40 <= kk < 0.46:
            # a frame, then at once its copy damaged ONLY in the three checksum bytes (and sometimes the same damaged
            # copy twice): a reader that recognises repeats must still check each copy's own trailer
            fr = rng.choice(valid)
            bad = fr[:-3] + bytes(b ^ m for b, m in zip(fr[-3:], rng.choice(((1, 0, 0), (0, 0, 1), (0x80, 0, 0),
                                                                            (0, 0x10, 0), (0xFF, 0xFF, 0xFF)))))
            parts.append(fr + bad + (bad if rng.random() < 0.4 else b""))
            foreign = True
            continue
        if valid and kk < 0.18:  # damaged repeat: header/payload bits flipped, trailer intact
            fr = rng.choice(valid)
            nb = (len(fr) - 3) * 8
            _, pos = streams.damage_positions(rng, nb, 8, rng.choice(("single", "double", "odd3", "burst")))
            parts.append(streams.flip(fr, pos))
            foreign = True
            continue
        if valid and kk < 0.24:  # different valid frame with the same header and the same CRC trailer
            c = streams.crc_collider(rng.choice(valid), rng)
            if c is not None:
                parts.append(c)
                continue
        if kk < 0.27:  # a valid frame whose payload is itself a complete valid frame (number 0xD30..)
            inner = refcrc.frame(streams.rand_defined_payload(rng) if rng.random() < 0.5
                                 else streams.rand_unknown_payload(rng, rng.randint(2, 30)))
            if len(inner) <= 1023:
                parts.append(refcrc.frame(inner))
                continue
        if kk < 0.30:
            # a valid frame V = A|B never contiguous in the input: A ends a frame-shaped block X (which fails its
            # CRC) after an NMEA-looking '$G'; an LF-terminated run N follows; then B
            for _try in range(20):
                v = refcrc.frame(streams.rand_unknown_payload(rng, rng.randint(6, 30)))
                if not any(b in (0xD3, 0xB5, 0x24, 0x0A) for b in v[1:]):
                    break
            cut = rng.randint(6, len(v) - 3)
            a_, b_ = v[:cut], v[cut:]
            interior = bytes(rng.choice(streams.INERT) for _ in range(rng.randint(0, 4))) + rng.choice((b"$G", b"$P")) \
                + bytes(rng.choice(streams.INERT) for _ in range(rng.randint(0, 3))) + a_
            interior = interior.replace(b"\n", b"x")
            x_ = b"\xd3" + (len(interior) - 3).to_bytes(2, "big") + interior  # last 3 bytes of A sit where X's CRC goes
            n_ = bytes(rng.choice(streams.INERT) for _ in range(rng.randint(0, 5))).replace(b"\n", b"x") + b"\n"
            parts.append(x_ + n_ + b_)
            foreign = True
            continue
        if 0.34 <= kk < 0.37:
            # header | payload | k stray bytes | trailer that is valid for header+payload: never a frame of the input
            # (a reader that over-reads and trims after RETRIED short reads would deliver header|payload|trailer)
            v = refcrc.frame(streams.rand_unknown_payload(rng, rng.randint(8, 40)))
            kstray = rng.randint(1, 5)
            stray = bytes(rng.choice(streams.INERT) for _ in range(kstray))
            if rng.random() < 0.5:  # line-terminator bytes (what keep-alive stripping would remove)
                stray = rng.choice((b"\r\n", b"\n", b"\r", b"\r\n\r\n", b"\n\n"))
                kstray = len(stray)
            if marks is not None:
                marks.append(("stray", sum(len(x) for x in parts), (len(v) - 6, kstray)))
            parts.append(v[:-3] + stray + v[-3:])
            foreign = True
            continue
        if 0.37 <= kk < 0.40:
            # F1 (valid, inert bytes only) followed by X whose trailer is the CRC of (an abandoned PREFIX of F1 + X):
            # X alone is damaged; a reader that keeps bytes of a frame it gave up (after a failed read inside F1) in
            # front of the next candidate would find the glued block valid
            for _try in range(30):
                f1 = refcrc.frame(bytes([0x3F, 0xF0]) + bytes(rng.choice(streams.INERT) for _ in range(rng.randint(6, 24))))
                if not any(b in (0xD3, 0xB5, 0x24, 0x0A, 0x0D) for b in f1[1:]):
                    break
            variant = rng.choice(("header", "header+payload"))
            stale = f1[:3] if variant == "header" else f1[:-3]
            xb = b"\xd3" + rng.randint(4, 30).to_bytes(2, "big")
            xb += streams.rand_unknown_payload(rng, int.from_bytes(xb[1:], "big"))
            x_ = xb + refcrc.crc_ref2(stale + xb).to_bytes(3, "big")
            if refcrc.wellformed(x_) is not None:  # (X on its own must NOT be a valid frame)
                if marks is not None:
                    marks.append(("stale", sum(len(x) for x in parts), (len(f1) - 6, variant)))
                parts.append(f1 + x_)
                valid.append(f1)
                foreign = True
                continue
        if kk < 0.34:  # length field lies about the enclosed size; trailer valid for the bytes present
            fr, a, d = streams.length_lie(rng)
            if marks is not None:
                marks.append(("length-lie", sum(len(x) for x in parts), (a, d)))
            parts.append(fr)
            foreign = True
            continue
        if k < 0.38:
            kind = rng.choice(("defined", "unknown", "len0", "len1", "len2", "defined", "steered",
                               "unknown") + (() if small else ("len255", "len256", "defmax")))
            fr, _, _ = streams.rand_frame(rng, kind)
            parts.append(fr)
            if 8 < len(fr) < 600:
                valid.append(fr)
        elif k < 0.52:  # damaged frame, damage anywhere including header
            fr, _, _ = streams.rand_frame(rng, rng.choice(("defined", "unknown", "len2")))
            _, pos = streams.damage_positions(rng, len(fr) * 8, 0)
            parts.append(streams.flip(fr, pos))
            foreign = True
        elif k < 0.60:  # truncated frame
            fr, _, _ = streams.rand_frame(rng, rng.choice(("defined", "unknown")))
            parts.append(fr[: rng.randint(1, len(fr) - 1)])
            foreign = True
        elif k < 0.66:
            parts.append(streams.pseudo_frame(rng))
            foreign = True
        elif k < 0.74:
            parts.append(streams.nmea(rng, 30, sloppy=True))
            foreign = True
        elif k < 0.82:
            parts.append(streams.ubx(rng, 40, dense=True))
            foreign = True
        elif k < 0.93:
            parts.append(streams.hostile_noise(rng, 12))
            foreign = True
        else:
            parts.append(streams.inert_noise(rng, 12))
            foreign = True
    return b"".join(parts), foreign


def run_case(ctx, data, plan, mode, pseed, foreign=True, label="gen"):
    from pyrtcm import RTCMReader

    libs = common.lib_errors()
    # every third case runs over a seekable double (regular file / BytesIO semantics)
    cls = doubles.SeekableRecordingStream if (pseed + len(data)) % 3 == 0 else doubles.RecordingStream
    if (pseed + len(data)) % 3 == 1 and len(plan) >= 1:
        cls = doubles.RawRecordingStream  # an io.RawIOBase (unbuffered file / FIFO / tty): short reads are its nature
    ds = cls(data, {int(k): v for k, v in plan.items()}, rng=random.Random(pseed), record_callers=True,
             budget=6 * len(data) + 64 + 8 * len(plan))
    ctx.hit("seekable_stream" if cls is doubles.SeekableRecordingStream else (
        "raw_iobase_stream" if cls is doubles.RawRecordingStream else "plain_stream"))
    rdr = RTCMReader(ds, validate=1, quitonerror=mode, errorhandler=(lambda e: None), labelmsm=(1, 2, True)[len(data) % 3])
    delivered = []
    after_fault = 0
    idle = 0
    guard = 4 * len(data) + 64 + 4 * len(plan)
    while guard > 0:
        guard -= 1
        try:
            raw, parsed = rdr.read()
        except libs:
            ctx.hit("lib_exceptions")
            continue
        except doubles.BudgetExceeded:  # non-termination is C02/C04's subject; here: inconclusive
            ctx.hit("budget_exceeded")
            break
        except Exception as e:  # foreign exception: C04's business, only counted here
            ctx.hit("foreign_exception:" + type(e).__name__)
            if ds.exhausted:
                break
            continue
        if raw is None and parsed is None:
            if ds.exhausted:
                break
            idle += 1
            if idle > len(plan) + 8:
                break
            continue
        delivered.append((raw, parsed, len(ds.faults_applied), ds.pos))
    params = {"data": data.hex(), "plan": {str(k): v for k, v in plan.items()}, "mode": mode,
              "pseed": pseed, "label": label}
    # ---- offline checker over the delivered list
    raws = [d[0] for d in delivered]
    for i, (raw, parsed, nfaults, endpos) in enumerate(delivered):
        ctx.hit("frames_checked")
        if nfaults:
            after_fault += 1
        if not isinstance(raw, (bytes, bytearray)):
            ctx.violation("raw-not-bytes", f"delivery {i}: raw is {type(raw).__name__}", params)
            return
        why = refcrc.wellformed(bytes(raw))
        if why:
            ctx.violation("malformed-frame-delivered", f"delivery {i} raw={bytes(raw)[:24].hex()}..: {why}",
                          params)
            return
        if parsed is None:
            ctx.violation("no-parsed", f"delivery {i}: parsed is None with parsing on", params)
            return
        if parsed.payload != raw[3:-3]:
            ctx.violation("payload-mismatch",
                          f"delivery {i}: parsed.payload {parsed.payload[:16].hex()} != raw[3:-3]", params)
            return
        want = common.expected_identity(raw[3:-3])
        if want is not None:
            if parsed.identity != want:
                ctx.violation("identity-mismatch",
                              f"delivery {i}: identity {parsed.identity!r}, slice carries {want!r}", params)
                return
            df002 = getattr(parsed, "DF002", None)
            if isinstance(df002, int) and df002 != int(want[:4]):
                ctx.violation("msgnum-mismatch", f"delivery {i}: DF002 {df002} != {want}", params)
                return
    offs, bad = common.greedy_locate(data, [bytes(r) for r in raws])
    if bad is not None:
        ctx.violation("not-a-slice-in-order",
                      f"delivery {bad} ({bytes(raws[bad])[:16].hex()}.. len {len(raws[bad])}) is not a slice "
                      f"of the source at/after the end of the previous delivered slice", params)
        return
    for (raw, _, _, endpos), off in zip(delivered, offs):
        if endpos - len(raw) == off:
            ctx.hit("offset_exact")
    if after_fault:
        ctx.hit("delivered_after_fault", after_fault)
    for k, v in ds.callers.items():
        if k.startswith("F:"):
            ctx.hit("site:" + k[2:], v)
    ctx.hit("faults_applied", len(ds.faults_applied))
    ctx.hit("delivered", len(delivered))
    ctx.hit(f"mode{mode}")
    nontrivial = bool(delivered) and (foreign or bool(ds.faults_applied))
    ctx.case(data + repr(sorted(plan.items(), key=str)).encode() + bytes([mode]), nontrivial)
    if nontrivial:
        ctx.sample({"stream_hex": data[:48].hex() + ("..." if len(data) > 48 else ""),
                    "stream_len": len(data), "plan": {str(k): v for k, v in plan.items()},
                    "mode": mode, "delivered": len(delivered), "offsets": offs[:8]})


def socket_case(ctx, data, sched, bufsize, mode):
    """The same delivered-frame checker over a socket-backed reader with timeouts / OS errors / close."""
    from pyrtcm import RTCMReader

    libs = common.lib_errors()
    params = {"socket": True, "data": data.hex(), "sched": sched, "bufsize": bufsize, "mode": mode}
    sock = doubles.ScriptedSocket(data, sched, budget=6 * len(data) + 8 * len(sched) + 64)
    delivered = []
    try:
        try:
            rdr = RTCMReader(sock, validate=1, quitonerror=mode, bufsize=bufsize, errorhandler=(lambda e: None),
                             labelmsm=(1, 2, True)[len(data) % 3])
            idle = 0
            guard = len(data) + 4 * len(sched) + 32
            while guard > 0 and idle < len(sched) + 4:
                guard -= 1
                try:
                    raw, parsed = rdr.read()
                except libs:
                    continue
                except doubles.BudgetExceeded:
                    ctx.hit("budget_exceeded")
                    break
                except Exception as e:
                    ctx.hit("foreign_exception:" + type(e).__name__)
                    break
                if raw is None and parsed is None:
                    idle += 1
                    if sock._vpos >= len(data) and not sock._sched[sock._si:] and idle > 2:
                        break
                    continue
                delivered.append((bytes(raw), parsed))
                if len(delivered) > len(data):
                    break
        except doubles.BudgetExceeded:
            ctx.hit("budget_exceeded")
    finally:
        sock.close()
    for i, (raw, parsed) in enumerate(delivered):
        why = refcrc.wellformed(raw)
        if why:
            ctx.violation("malformed-frame-delivered", f"socket: delivery {i} raw={raw[:24].hex()}..: {why}", params)
            return
        if parsed is None or parsed.payload != raw[3:-3]:
            ctx.violation("payload-mismatch", f"socket: delivery {i}: parsed.payload != raw[3:-3]", params)
            return
    offs, bad = common.greedy_locate(data, [r for r, _ in delivered])
    if bad is not None:
        ctx.violation("not-a-slice-in-order",
                      f"socket: delivery {bad} ({delivered[bad][0][:16].hex()}.. len {len(delivered[bad][0])}) is not a "
                      f"slice of the source at/after the end of the previous delivered slice "
                      f"({sock.faults} timeouts/errors injected)", params)
        return
    ctx.hit("frames_checked", len(delivered))
    ctx.hit("socket_runs")
    if sock.faults and delivered:
        ctx.hit("socket_delivered_with_faults")
    ctx.case(b"sock" + data + repr((sched, bufsize, mode)).encode(), bool(delivered) and sock.faults > 0)


def count_calls(data):
    """Number of read calls of a fault-free run (to enumerate fault positions)."""
    from pyrtcm import RTCMReader

    ds = doubles.RecordingStream(data, budget=3 * len(data) + 16)
    rdr = RTCMReader(ds, validate=1, quitonerror=0)
    try:
        for _ in rdr:
            pass
    except Exception:
        pass
    except doubles.BudgetExceeded:  # non-termination is C02/C04's subject
        pass
    return ds.calls


def run(ctx):
    common.quiet_logging()
    rng = ctx.rng
    # (a) enumeration: one fault of each kind at every read index of small streams
    nsmall = ctx.n(360, 8000)
    for _ in range(nsmall):
        data, foreign = make_stream(rng, small=True)
        ncalls = min(count_calls(data), 400)
        mode = rng.choice((0, 1, 2))
        run_case(ctx, data, {}, mode, 0, foreign)
        for idx in range(ncalls):
            for kind in ("short", "empty", "eof"):
                run_case(ctx, data, {idx: kind}, mode, rng.getrandbits(16), foreign, "enum")
        ctx.hit("plans_enumerated", 3 * ncalls)
    # (a2) directed double faults on frames whose length field lies: the payload read comes back with
    #      exactly the bytes present (short read, then empty / second short read), so that the next
    #      3 bytes read are a trailer that is valid for them
    for _ in range(ctx.n(600, 12000)):
        marks = []
        data, foreign = make_stream(rng, small=True, marks=marks)
        lies = [m for m in marks if m[0] == "length-lie" and m[2][1] > m[2][0]]
        overs = [m for m in marks if m[0] == "length-lie" and 0 < m[2][1] < m[2][0]]
        strays = [m for m in marks if m[0] == "stray"]
        stales = [m for m in marks if m[0] == "stale"]
        if not lies and not strays and not stales and not overs:
            continue
        probe = doubles.RecordingStream(data, budget=3 * len(data) + 16)
        try:
            from pyrtcm import RTCMReader

            for _x in RTCMReader(probe, validate=1, quitonerror=0):
                pass
        except BaseException:
            pass
        for kind, start, (a, d) in overs:
            # MORE payload bytes present than announced (trailer valid for all of them): the payload read (d bytes) is
            # answered short by exactly the surplus a - d; a top-up that asks for the full size again would end up
            # with all a bytes and find the trailer right behind them
            if a - d >= d:
                continue
            qs = [q for q, what, off, req, got, f in probe.log if what == "read" and off == start + 3 and req == d]
            for q in qs[:1]:
                for mode in (0, 2):
                    run_case(ctx, data, {q: ["short", a - d]}, mode, 0, True, "directed")
                    # ... and two short reads in a row, the first as long as the surplus (a top-up that miscounts what
                    # is still missing after the SECOND short read ends up with all a bytes); over every kind of double
                    j2 = rng.randint(1, max(1, d - (a - d) - 1))
                    for ps in (0, 1, 2):
                        run_case(ctx, data, {q: ["short", a - d], q + 1: ["short", j2]}, mode, ps - len(data) % 3, True,
                                 "directed")
                ctx.hit("directed_short_by_surplus")
        for kind, start, (n1, variant) in stales:
            # a read INSIDE F1 fails (short payload read / nothing for the trailer): F1 is given up; X follows
            qs = [q for q, what, off, req, got, f in probe.log if what == "read" and off == start + 3 and req == n1]
            for q in qs[:1]:
                for mode in (0, 2):
                    if variant == "header":
                        run_case(ctx, data, {q: ["short", rng.randint(1, n1 - 1)]}, mode, 0, True, "directed")
                    else:
                        run_case(ctx, data, {q + 1: "empty"}, mode, 0, True, "directed")
                ctx.hit("directed_fault_inside_frame_before_glued_twin")
        for kind, start, (n_, ks) in strays:
            # the payload read answered by consecutive SHORT reads (2 and 3 in a row), the second of them exactly as
            # long as the stray run: a retry loop that miscounts what is still missing swallows the stray bytes
            seqs = [q for q, what, off, req, got, f in probe.log if what == "read" and off == start + 3 and req == n_]
            for q in seqs[:1]:
                mode = rng.choice((0, 1, 2))
                j = rng.randint(1, n_ - ks - 1)
                run_case(ctx, data, {q: ["short", j], q + 1: ["short", ks]}, mode, 0, True, "directed")
                run_case(ctx, data, {q: ["short", j], q + 1: ["short", ks], q + 2: ["short", 1]}, mode, 0, True, "directed")
                run_case(ctx, data, {q: ["short", j], q + 1: ["short", rng.randint(1, 5)]}, mode, 0, True, "directed")
                ctx.hit("directed_consecutive_shorts")
            # the same block over a socket: one TCP segment ends exactly behind the payload, the next one starts with
            # the stray bytes (the wrapper's buffer is empty at that moment)
            socket_case(ctx, data, [start + 3 + n_], 4096, rng.choice((0, 1, 2)))
            socket_case(ctx, data, [start + 3 + n_, ks], rng.choice((64, 4096)), rng.choice((0, 1, 2)))
            ctx.hit("directed_socket_segment_before_stray")
        for kind, start, (a, d) in lies:
            seqs = [q for q, what, off, req, got, f in probe.log if what == "read" and off == start + 3 and req == d]
            for q in seqs[:1]:
                mode = rng.choice((0, 1, 2))
                run_case(ctx, data, {q: ["short", a], q + 1: "empty"}, mode, 0, True, "directed")
                if a > 1:
                    j = rng.randint(1, a - 1)
                    run_case(ctx, data, {q: ["short", j], q + 1: ["short", a - j]}, mode, 0, True, "directed")
                    run_case(ctx, data, {q: ["short", j], q + 1: ["short", a - j], q + 2: "empty"}, mode, 0, True, "directed")
                ctx.hit("directed_double_faults")
    # (b) random fault mixes on bigger streams, all modes
    for _ in range(ctx.n(2500, 80000)):
        data, foreign = make_stream(rng)
        ncalls = count_calls(data)
        for mode in (0, 1, 2):
            k = rng.choice((0, 1, 2, 3, 5, 8))
            plan = {rng.randrange(max(1, ncalls)): rng.choice(("short", "short", "empty", "eof", "partial"))
                    for _ in range(k)}
            run_case(ctx, data, plan, mode, rng.getrandbits(16), foreign, "mix")
    # (b2) socket-backed reader with timeouts / OS errors between segments
    for _ in range(ctx.n(1000, 40000)):
        data, _f = make_stream(rng, small=rng.random() < 0.5)
        sched = []
        left = len(data)
        while left > 0:
            k = rng.choice((1, 2, 3, 7, 20, 50, 200, 1500))
            sched.append(k)
            left -= k
            if rng.random() < 0.2:
                sched.append(rng.choice(("T", "E")))
        sched += [rng.choice(("T", "E"))] * rng.choice((0, 1, 2))
        socket_case(ctx, data, sched[:600], rng.choice((1, 3, 64, 4096)), rng.choice((0, 1, 2)))
    # (b3) ONE long socket session: more than a MiB through a single reader (housekeeping of long-lived buffers)
    if ctx.worker % 4 == 0 or not ctx.quick:
        frames = [refcrc.frame(bytes([0x3F, 0xF0 | (i >> 8) & 0xF, i & 0xFF]) + bytes(rng.getrandbits(8) for _ in range(
            rng.choice((1010, 1010, 600, 200)))) + i.to_bytes(3, "big")) for i in range(2400)]
        data = b"".join(frames)
        sched = []
        left = len(data)
        while left > 0:
            k = rng.choice((1460, 1460, 4096, 8192, 700, 65536))
            sched.append(k)
            left -= k
        socket_case(ctx, data, sched, rng.choice((4096, 4096, 65536)), 0)
        ctx.hit("long_socket_sessions")
    # (c) recorded logs with random plans
    logs = common.recorded_logs(120000)
    for i, (name, data) in enumerate(logs):
        if not ctx.mine(i):
            continue
        for rep in range(2 if ctx.quick else 12):
            ncalls = count_calls(data)
            plan = {rng.randrange(ncalls): rng.choice(("short", "empty", "partial"))
                    for _ in range(rng.choice((0, 2, 6, 20)))}
            run_case(ctx, data, plan, rng.choice((0, 1, 2)), rng.getrandbits(16), True, name)


def replay(ctx, p):
    common.quiet_logging()
    if p.get("socket"):
        socket_case(ctx, bytes.fromhex(p["data"]), p["sched"], p["bufsize"], p["mode"])
        return
    run_case(ctx, bytes.fromhex(p["data"]), {int(k): v for k, v in p["plan"].items()}, p["mode"],
             p["pseed"], True, p.get("label", "replay"))
