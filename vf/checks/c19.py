"""C19 - Attribute-name helpers handle every name the parser generates.

The generator (vf.refmodel) knows, for every attribute it makes the real parser produce, the data
field key K and the group indices I it came from; the helpers must agree with that knowledge.
"""

import random

from vf import refmodel

LEVEL = "exploration"
RULE = (
    "case = attribute name occurring on a really parsed message (all defined identities; plain, singly and doubly "
    "indexed; 2- and 3-digit indices; DF, IDF and derived PRN/CELLPRN/CELLSIG/ExtSatInfo fields). Checked: "
    "datadesc(name) == description of field K; for indexed names att2idx(name) == I (int, or tuple for nested groups) "
    "and att2name(name) == K. distinct = blake2b(name); non-trivial = the name is indexed or is not a plain 'DFnnn' key"
)
RULE += (
    ' Also: the names the parser ACTUALLY produced are aligned by position with the encoded fields and the'
    ' helpers applied to them; every other message uses the package-level names pyrtcm.datadesc / att2idx'
    ' / att2name.'
)
ASSUMPTIONS = ["count attributes NSat/NSig/NCell do not stem from a data field and are not covered by the statement"]
GATES = ["names_checked", "indexed_names", "nested_names", "three_digit_names", "idf_names", "derived_names",
         "messages_aligned_by_position"]


FOREIGN_NAMES = ("DF001_01", "DF001_1_02", "cno_101", "gnod_03_06", "DF002_01", "DF003_02_03", "DF422_05", "IDF001_01",
                 "foo", "foo_01", "PRN", "CELLSIG", "DF", "_01", "DF001_", "DF001__01", "ExtSatInfo", "DF404", "NSat_01")


def check_message(ctx, identity, enc):
    import pyrtcm
    from pyrtcm import RTCMMessage
    from pyrtcm import rtcmhelpers as H

    # the helpers are documented as `from pyrtcm import datadesc, att2idx, att2name`: every other message goes through
    # the package-level names, the rest through the helper module
    ns = pyrtcm if len(enc.payload) % 2 == 0 else H
    att2idx, att2name, datadesc = ns.att2idx, ns.att2name, ns.datadesc
    ctx.hit("via_package_namespace" if ns is pyrtcm else "via_helper_module")
    _, fields = refmodel.tables()
    try:
        m = RTCMMessage(payload=enc.payload)
    except Exception:
        ctx.hit("unparseable(C03-matter)")
        return True
    present = set(k for k in m.__dict__ if not k.startswith("_"))
    # the names the parser ACTUALLY produced, matched by position with the fields the generator encoded: a name that
    # is spelt differently from the generator's still "occurs on a message" and the helpers must handle it
    actual = [k for k in m.__dict__ if not k.startswith("_") and k not in ("NSat", "NSig", "NCell")]
    refnames = [f["name"] if f["typ"] != "STR" else f["key"] for f in enc.fields]
    aligned = len(actual) == len(refnames)
    if aligned:
        ctx.hit("messages_aligned_by_position")
    for pos, f in enumerate(enc.fields):
        name = f["name"] if f["typ"] != "STR" else f["key"]
        idx = f["index"] if f["typ"] != "STR" else ()
        if aligned and actual[pos] != name and f["typ"] != "STR":
            name = actual[pos]
            ctx.hit("names_spelt_differently_by_parser")
        if name in ctx.seen:
            continue
        ctx.seen.add(name)
        if name not in present:
            continue  # naming itself is C03's subject
        key = f["key"]
        params = {"name": name, "key": key, "index": list(idx), "identity": identity}
        want_desc = fields[key][3]
        if len(ctx.seen) % 97 == 0:
            # names nobody's parser produces (unit-test vectors, indexed plain fields, junk) asked in between: the
            # helpers keep no memory, so this must not matter for the names that do occur
            for junk in FOREIGN_NAMES:
                for fn in (datadesc, att2idx, att2name):
                    try:
                        fn(junk)
                    except Exception:
                        pass
            ctx.hit("foreign_names_in_between")
        try:
            got = datadesc(name[:1] + name[1:])  # (a fresh temporary string object, freed right after the call)
        except Exception as e:
            ctx.violation("datadesc-raised", f"datadesc({name!r}) raised {type(e).__name__}: {e} (field {key}, "
                          f"message {identity})", params)
            return False
        if got != want_desc:
            ctx.violation("datadesc-wrong", f"datadesc({name!r}) = {got!r}, field {key} is {want_desc!r}", params)
            return False
        if idx:
            want_idx = idx[0] if len(idx) == 1 else tuple(idx)
            try:
                gi = att2idx(name[:1] + name[1:])
                gn = att2name(name[:1] + name[1:])  # temporaries: the same address is reused from call to call
            except Exception as e:
                ctx.violation("index-helper-raised", f"att2idx/att2name({name!r}) raised {type(e).__name__}: {e}", params)
                return False
            if gi != want_idx or type(gi) is not type(want_idx):
                ctx.violation("att2idx-wrong", f"att2idx({name!r}) = {gi!r}, group index is {want_idx!r}", params)
                return False
            if gn != key:
                ctx.violation("att2name-wrong", f"att2name({name!r}) = {gn!r}, field name is {key!r}", params)
                return False
            ctx.hit("indexed_names")
            if len(idx) > 1:
                ctx.hit("nested_names")
            if max(idx) > 99:
                ctx.hit("three_digit_names")
        if key.startswith("IDF"):
            ctx.hit("idf_names")
        if f["role"] == "label" or key == "ExtSatInfo":
            ctx.hit("derived_names")
        ctx.hit("names_checked")
        ctx.case(name, bool(idx) or not (key.startswith("DF") and len(key) == 5))
        if idx and len(ctx.samples) < 2 and len(idx) > 1:
            ctx.sample({"name": name, "field": key, "indices": list(idx), "description": want_desc})
    return True


def run(ctx):
    rng = ctx.rng
    ctx.seen = set()
    from vf import common

    for k_, (name_, fr_) in enumerate(common.recorded_frames()):
        if not ctx.mine(k_):
            continue
        ident_ = common.expected_identity(fr_[3:-3])
        try:
            enc_ = refmodel.decode(ident_, fr_[3:-3])
        except Exception:
            continue
        if not check_message(ctx, ident_, enc_):
            return
        ctx.hit("recorded_frames_checked")
    ids = [i for i in refmodel.identities() if refmodel.reachable(i)]
    for k, identity in enumerate(ids):
        if not ctx.mine(k):
            continue
        for j in range(100 if ctx.quick else 1500):
            cs = ("max", "small", "one", "random", "max")[j % 5]
            try:
                enc = refmodel.build(identity, rng, "random", cs, refmodel.MSTRATS[j % len(refmodel.MSTRATS)])
            except refmodel.DefinitionError:
                break
            if not check_message(ctx, identity, enc):
                return


def replay(ctx, p):
    import pyrtcm
    from pyrtcm import rtcmhelpers as H

    for ns in (H, pyrtcm):
        _replay_ns(ctx, p, ns.att2idx, ns.att2name, ns.datadesc)
        if ctx.violations:
            return


def _replay_ns(ctx, p, att2idx, att2name, datadesc):
    _, fields = refmodel.tables()
    name, key, idx = p["name"], p["key"], tuple(p["index"])
    try:
        if datadesc(name) != fields[key][3]:
            ctx.violation("datadesc-wrong", f"datadesc({name!r}) = {datadesc(name)!r}", p)
        if idx:
            want = idx[0] if len(idx) == 1 else idx
            if att2idx(name) != want:
                ctx.violation("att2idx-wrong", f"att2idx({name!r}) = {att2idx(name)!r}", p)
            if att2name(name) != key:
                ctx.violation("att2name-wrong", f"att2name({name!r}) = {att2name(name)!r}", p)
    except Exception as e:
        ctx.violation("datadesc-raised", f"{type(e).__name__}: {e}", p)
