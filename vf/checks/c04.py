"""C04 - Parsing is total: only the library's own errors, and it always terminates.

Exception-type observer at the three entry points (message constructor, static parser, stream
reader/iterator) plus logical step budgets (read/recv calls of the doubles; field-decode calls
counted by the icontract post-condition). Wall-clock never decides.
"""

import io
import random

from vf import bits as B
from vf import common, doubles, monitors, refcrc, refmodel, streams
from vf.checks import c01

LEVEL = "exploration"
RULE = (
    "cases: (a) RTCMMessage(payload) for ALL 4096 message numbers x payload lengths 0..8 plus a length ladder to "
    "1029, 4076 x ALL 256 sub-types x lengths 2..6; (b) structure-aware mutants of reference messages (truncations, "
    "counters forced to maximum, all-ones masks, bodies spliced under other headers, bit flips, harmonic order M>N); "
    "(c) RTCMReader.parse(buffer, validate in {0,1}) for EVERY buffer length 0..1029 and CRC-valid wrappers of (b); "
    "(d) hostile finite streams with injected faults, file-like and socket-backed (incl. chunked/compressed garbage), "
    "in modes ignore/log/raise x validate 0/1. distinct = blake2b(entry point, input, options); non-trivial = the "
    "input is not a well-formed complete message (i.e. an error path or foreign data was exercised)"
)
RULE += (
    ' Also: every input also as bytearray / subclass / memoryview; label option drawn from {1,2,0,True};'
    ' standard-library BytesIO / BufferedReader / pipe / makefile streams with EVERY prefix of valid'
    ' streams; streams handing out bytearrays; long runs (> recursion limit) of failing frames; chunk-size'
    ' lines of 17+ hex digits; log-mode handlers that call next()/read() on their own reader; step budgets'
    ' on read/recv calls, on counted BytesIO calls and (chunked socket runs) on executed library LINES'
    ' (sys.monitoring).'
)
ASSUMPTIONS = [
    "inputs are bytes objects; streams follow file/socket read semantics (doubles)",
    "termination is a bounded-progress restatement: read/recv calls <= 3*len+16(+faults), decode calls <= 3*bits+70",
]
GATES = ["ctor_calls", "parse_calls", "stream_runs", "exc:RTCMMessageError", "exc:RTCMParseError",
         "exc:RTCMStreamError", "exc:RTCMTypeError", "iter_mode0", "iter_mode1", "read_mode2", "prefix_enumerations",
         "long_error_runs", "line_budget_runs"]


def _ctor(ctx, payload, labelmsm=None, tag="ctor", rep=None):
    from pyrtcm import RTCMMessage

    if labelmsm is None:  # every value the option is documented / used with
        labelmsm = ctx.rng.choice((1, 1, 2, 0, True))

    libs = common.lib_errors()
    ctx.hit("ctor_calls")
    before = monitors.EVAL.get("field_ends_within_payload", 0)
    rep = rep or streams.pick_rep(ctx.rng, 0.7)  # the same bytes as bytes / bytearray / subclass / memoryview
    ctx.hit("rep:" + rep)
    try:
        RTCMMessage(payload=streams.as_rep(rep, payload), labelmsm=labelmsm)
        ctx.hit("ctor_ok")
        ok = True
    except libs as e:
        ctx.hit("exc:" + type(e).__name__)
        ok = False
    except Exception as e:
        ctx.violation("foreign-exception-constructor",
                      f"RTCMMessage(payload={payload[:24].hex()}..[{len(payload)}B] as {rep}) raised "
                      f"{type(e).__name__}: {e}",
                      {"kind": "ctor", "payload": payload.hex(), "labelmsm": labelmsm, "rep": rep})
        return
    steps = monitors.EVAL.get("field_ends_within_payload", 0) - before
    if steps > 3 * len(payload) * 8 + 70:
        ctx.violation("decode-steps-exceeded", f"{steps} field decodes for {len(payload)} payload bytes",
                      {"kind": "ctor", "payload": payload.hex(), "labelmsm": labelmsm, "rep": rep})
        return
    ctx.case(b"ctor" + payload + bytes([labelmsm]), not ok)


def _parse(ctx, buf, validate, labelmsm=None, rep=None):
    from pyrtcm import RTCMReader

    if labelmsm is None:
        labelmsm = ctx.rng.choice((1, 1, 2, 0, True))

    libs = common.lib_errors()
    ctx.hit("parse_calls")
    rep = rep or streams.pick_rep(ctx.rng, 0.7)
    ctx.hit("rep:" + rep)
    try:
        RTCMReader.parse(streams.as_rep(rep, buf), validate=validate, labelmsm=labelmsm)
        ctx.hit("parse_ok")
        ok = True
    except libs as e:
        ctx.hit("exc:" + type(e).__name__)
        ok = False
    except Exception as e:
        ctx.violation("foreign-exception-parse",
                      f"RTCMReader.parse({buf[:24].hex()}..[{len(buf)}B] as {rep}, validate={validate}) raised "
                      f"{type(e).__name__}: {e}",
                      {"kind": "parse", "buf": buf.hex(), "validate": validate, "labelmsm": labelmsm, "rep": rep})
        return
    ctx.case(b"parse" + buf + bytes([validate, labelmsm]), not ok)


def mutants(rng, enc):
    """Structure-aware mutants of one reference message: list of (label, payload)."""
    out = []
    p = enc.payload
    # truncations
    for _ in range(3):
        out.append(("trunc", p[: rng.randint(0, max(0, len(p) - 1))]))
    # counters / masks forced to maximum without adding data
    for f in enc.fields:
        if f["role"] in ("counter", "mask", "cond") and f["width"] > 0 and rng.random() < 0.7:
            out.append(("max-" + f["role"], B.set_bits(p, f["start"], f["width"], (1 << f["width"]) - 1)))
    # all counters and masks to max at once
    q = p
    for f in enc.fields:
        if f["role"] in ("counter", "mask") and f["width"] > 0:
            q = B.set_bits(q, f["start"], f["width"], (1 << f["width"]) - 1)
    out.append(("max-all", q))
    out.append(("max-all-padded", (q + bytes(rng.getrandbits(8) for _ in range(1023)))[:1023]))
    # bit flips
    for _ in range(3):
        if p:
            out.append(("flip", B.flip_bits(p, [rng.randrange(len(p) * 8) for _ in range(rng.randint(1, 6))])))
    # harmonic order M > N
    for f in enc.fields:
        if f["key"] == "IDF037":
            out.append(("M>N", B.set_bits(p, f["start"], 4, rng.randint(0, 3))))
    return out


def splice(rng, enc, other_identity):
    """Body of one message under the header of another."""
    p = enc.payload
    if other_identity.startswith("4076_"):
        hdr = streams.header_bytes(4076, int(other_identity[5:]))
        return hdr + p[3:] if len(p) > 3 else hdr
    num = int(other_identity)
    if len(p) < 2:
        return streams.header_bytes(num)
    return bytes([num >> 4, ((num & 0xF) << 4) | (p[1] & 0x0F)]) + p[2:]


def _pull(rdr, style):
    """Messages of one round: style 0 = for loop (calls iter()), 1 = bare read() until (None, None), 2 = bare next()."""
    if style == 0:
        yield from rdr
    elif style == 1:
        while True:
            raw, parsed = rdr.read()
            if raw is None and parsed is None:
                return
            yield raw, parsed
    else:
        while True:
            try:
                item = next(rdr)
            except StopIteration:
                return
            yield item


def _stream(ctx, data, plan, mode, validate, pseed, backend, bparam):
    """Iterate / read a finite stream; observe exception types and the step budget."""
    from pyrtcm import RTCMReader

    libs = common.lib_errors()
    budget = 3 * len(data) + 16 + 4 * len(plan) + 3 * len(bparam.get("sizes", ()))
    params = {"kind": "stream", "data": data.hex(), "plan": {str(k): v for k, v in plan.items()}, "mode": mode,
              "validate": validate, "pseed": pseed, "backend": backend, "bparam": bparam}
    sock = None
    feeder = None
    if backend == "serial":
        stream = doubles.SerialLikeStream(data, plan, rng=random.Random(pseed), budget=2 * budget)
    elif backend == "file":
        cls = doubles.SeekableRecordingStream if pseed % 3 == 0 else doubles.RecordingStream
        stream = cls(data, plan, rng=random.Random(pseed), budget=2 * budget,
                     rtype=bytearray if bparam.get("rtype") == "bytearray" else None)
    elif backend in ("pipe", "makefile"):
        inner, feeder = (doubles.pipe_file if backend == "pipe" else doubles.makefile_stream)(data)
        stream = doubles.CountingStream(inner, budget)
        stream.exhausted = False
    else:
        sock = doubles.ScriptedSocket(data, bparam.get("sizes", ()), budget=budget)
        stream = sock
    ctx.hit("stream_runs")
    # socket runs with transfer decoding also get a budget of executed library LINES (sys.monitoring): a loop that
    # spins without ever calling recv() is still a logical-step overrun, not a wall-clock matter
    from vf import REPO_SRC

    lb = monitors.LineBudget(REPO_SRC, 400000 + 400 * len(data), doubles.BudgetExceeded) if (
        backend == "socket" and bparam.get("encoding", 0)) else None
    if lb is not None:
        lb.__enter__()
        ctx.hit("line_budget_runs")
    try:
        holder = {}
        nested = []

        def reentrant_handler(err):
            """A log-mode handler that pulls the next message from the SAME reader (skip-ahead handlers do that)."""
            r = holder.get("rdr")
            # at most two levels deep (a handler that skips ahead does not recurse without bound), and a bounded
            # number of such calls per stream
            if r is None or holder.get("depth", 0) >= 2 or len(nested) > 2 * len(data) + 8:
                return
            holder["depth"] = holder.get("depth", 0) + 1
            try:
                nested.append(1)
                try:
                    if pseed % 8 == 0:
                        next(r)
                    else:
                        r.read()
                finally:
                    holder["depth"] -= 1
                ctx.hit("reentrant_calls_ok")
            except (StopIteration,) + tuple(libs):
                ctx.hit("reentrant_calls_ok")
            except Exception as e:  # recorded here, never re-raised: the handler itself stays silent
                holder["foreign"] = f"{type(e).__name__}: {e}"

        handler = reentrant_handler if (mode == 1 and pseed % 4 == 0) else (lambda e: None)
        if (len(data) + pseed) % 5 == 1:
            handler = None  # no user handler: errors go to the library's logger
        try:
            rdr = RTCMReader(stream, validate=validate, quitonerror=mode, errorhandler=handler,
                             bufsize=bparam.get("bufsize", 4096), encoding=bparam.get("encoding", 0),
                             labelmsm=bparam.get("labelmsm", 1), parsed=((len(data) + pseed) % 7 != 2))
            holder["rdr"] = rdr
        except doubles.BudgetExceeded as e:
            ctx.violation("no-termination", f"constructor: {e}", params)
            return
        except libs:
            return
        except Exception as e:
            ctx.violation("foreign-exception-reader-init", f"{type(e).__name__}: {e}", params)
            return
        if mode in (0, 1):
            ctx.hit(f"iter_mode{mode}")
            rounds = 0
            while True:  # an empty read ends one iteration; keep iterating until the double is exhausted
                rounds += 1
                try:
                    n = 0
                    # three ways of pulling messages in the ignore / log modes: a for loop (iter() first), bare
                    # read() calls and bare next() calls on a reader iter() was never called on
                    style = (len(data) + pseed) % 3
                    ctx.hit(f"pull_style_{style}_mode{mode}")
                    for _ in _pull(rdr, style):
                        n += 1
                        if n > len(data) + 8:
                            ctx.violation("no-termination", "iterator delivers more items than bytes", params)
                            return
                except doubles.BudgetExceeded as e:
                    ctx.violation("no-termination", f"mode {mode}: {e}", params)
                    return
                except Exception as e:
                    ctx.violation("iterator-raised",
                                  f"mode {mode} iterator raised {type(e).__name__}: {e}", params)
                    return
                if backend in ("pipe", "makefile"):
                    break
                done = stream.exhausted if backend in ("file", "serial") else (sock._vpos >= len(data) and not sock._sched[sock._si:])
                if done or rounds > len(plan) + len(bparam.get("sizes", ())) + 4:
                    break
        else:
            ctx.hit("read_mode2")
            guard = len(data) + len(plan) + len(bparam.get("sizes", ())) + 16
            idle = 0
            while guard > 0:
                guard -= 1
                try:
                    raw, parsed = rdr.read()
                except libs as e:
                    ctx.hit("exc:" + type(e).__name__)
                    continue
                except doubles.BudgetExceeded as e:
                    ctx.violation("no-termination", f"mode 2: {e}", params)
                    return
                except Exception as e:
                    ctx.violation("foreign-exception-reader", f"read() raised {type(e).__name__}: {e}", params)
                    return
                if raw is None and parsed is None:
                    if backend in ("pipe", "makefile"):
                        break
                    done = stream.exhausted if backend in ("file", "serial") else (
                        sock._vpos >= len(data) and not sock._sched[sock._si:])
                    idle += 1
                    if done or idle > len(plan) + len(bparam.get("sizes", ())) + 4:
                        break
        if holder.get("foreign"):
            ctx.violation("foreign-exception-reader", f"a call on the reader made from inside its log-mode error handler "
                          f"raised {holder['foreign']}", params)
            return
    finally:
        if lb is not None:
            lb.__exit__()
        if sock is not None:
            sock.close()
        if feeder is not None:
            try:
                inner.close()
            except OSError:
                pass
            feeder.join(5)
    ctx.hit("stream_backend:" + backend)
    ctx.case(b"stream" + data + repr((sorted(plan.items()), mode, validate, backend, bparam)).encode(), True)
    ctx.sample({"entry": "stream", "backend": backend, "mode": mode, "validate": validate, "len": len(data),
                "faults": len(plan), "head_hex": data[:32].hex()}, limit=1)


def _plain_stream(ctx, data, mode, validate, kind, label):
    """Iterate a finite in-memory / buffered stream object of the standard library (has peek, seek, readinto...)."""
    import io

    from pyrtcm import RTCMReader

    libs = common.lib_errors()
    params = {"kind": "plain", "data": data.hex(), "mode": mode, "validate": validate, "stream": kind, "label": label}
    # genuine standard-library objects; the (sub-classed) BytesIO only COUNTS calls: logical step budget
    core = _CountedBytesIO(data)
    core._budget = 6 * len(data) + 64
    stream = core if kind == "bytesio" else io.BufferedReader(core, buffer_size=16)
    ctx.hit("plain_stream_runs")
    try:
        try:
            _plain_drive(ctx, stream, data, mode, validate, kind, label, params, libs)
        finally:
            core._budget = 1 << 60  # closing a BufferedReader may touch the raw object again
    except doubles.BudgetExceeded as e:
        ctx.violation("no-termination", f"{label} ({kind}, mode {mode}, {len(data)} bytes): {e}", params)


class _CountedBytesIO(io.BytesIO):
    """io.BytesIO whose reading calls are counted against a budget (behaviour otherwise untouched)."""

    _budget = 1 << 60

    def _tick(self):
        self._budget -= 1
        if self._budget < 0:
            raise doubles.BudgetExceeded("more stream calls than the step budget of a finite input allows")

    def read(self, *a):
        self._tick()
        return super().read(*a)

    def read1(self, *a):
        self._tick()
        return super().read1(*a)

    def readinto(self, b):
        self._tick()
        return super().readinto(b)

    def readline(self, *a):
        self._tick()
        return super().readline(*a)


def _plain_drive(ctx, stream, data, mode, validate, kind, label, params, libs):
    from pyrtcm import RTCMReader

    try:
        rdr = RTCMReader(stream, validate=validate, quitonerror=mode, errorhandler=(lambda e: None))
        guard = len(data) + 16
        if mode in (0, 1):
            for _ in rdr:
                guard -= 1
                if guard < 0:
                    ctx.violation("no-termination", f"{label}: iterator delivers more items than bytes", params)
                    return
        else:
            while guard > 0:
                guard -= 1
                try:
                    raw, parsed = rdr.read()
                except libs as e:
                    ctx.hit("exc:" + type(e).__name__)
                    continue
                if raw is None and parsed is None:
                    break
            else:
                ctx.violation("no-termination", f"{label}: read() keeps returning", params)
                return
    except Exception as e:
        ctx.violation("iterator-raised" if mode in (0, 1) else "foreign-exception-reader",
                      f"{label} ({kind}, mode {mode}, {len(data)} bytes ending ..{data[-4:].hex()}): "
                      f"{type(e).__name__}: {e}", params)
        return
    ctx.case(b"plain" + data + bytes([mode, validate]) + kind.encode(), True)


def run(ctx):
    common.quiet_logging()
    monitors.install_field_monitor()
    rng = ctx.rng
    ids = [i for i in refmodel.identities() if refmodel.reachable(i)]
    # (a) all 4096 numbers x short lengths; 4076 x 256 subtypes
    for num in range(4096):
        if not ctx.mine(num):
            continue
        for ln in range(0, 9):
            body = bytes(rng.getrandbits(8) for _ in range(ln))
            if ln >= 2:
                body = streams.header_bytes(num)[:2] + body[2:]
                body = bytes([body[0], (body[1] & 0xF0) | rng.getrandbits(4)]) + body[2:]
            elif ln == 1:
                body = bytes([num >> 4])
            _ctor(ctx, body, rng.choice((1, 2)))
        if ctx.quick and num % 8:
            continue
        for ln in (9, 17, 64, 255, 256, 511, 1023, 1024, 1029):
            body = streams.header_bytes(num) + bytes(rng.getrandbits(8) for _ in range(ln - 2))
            _ctor(ctx, body)
    for sub in range(256):
        if not ctx.mine(sub):
            continue
        for ln in range(2, 7):
            body = (streams.header_bytes(4076, sub) + bytes(rng.getrandbits(8) for _ in range(4)))[:ln]
            _ctor(ctx, body)
            _parse(ctx, refcrc.frame(body), 1)
    ctx.hit("numbers_enumerated", 4096 // ctx.nworkers)
    # (b) structure-aware mutants, (c) wrapped in frames for the static parser
    per = 12 if ctx.quick else 240
    for k, identity in enumerate(ids):
        if not ctx.mine(k):
            continue
        for j in range(per):
            try:
                enc = refmodel.build(identity, rng, rng.choice(refmodel.VSTRATS),
                                     rng.choice(("small", "one", "max", "random")),
                                     rng.choice(refmodel.MSTRATS))
            except refmodel.DefinitionError:
                break
            muts = mutants(rng, enc)
            muts.append(("splice", splice(rng, enc, rng.choice(ids))))
            muts.append(("splice", splice(rng, enc, rng.choice(ids))))
            for label, p in muts:
                ctx.hit("mutant:" + label)
                _ctor(ctx, p, rng.choice((1, 2)))
                if len(p) <= 1023 and rng.random() < 0.5:
                    fr = refcrc.frame(p)
                    _parse(ctx, fr, 1)
                    _parse(ctx, fr[:-1] + bytes([fr[-1] ^ 1]), rng.choice((0, 1)))
    # (c) every buffer length 0..1029 for the static parser
    for ln in range(0, 1030):
        if not ctx.mine(ln):
            continue
        for rep in range(1 if ctx.quick else 8):
            style = rng.random()
            if style < 0.35:
                buf = bytes(rng.getrandbits(8) for _ in range(ln))
            elif style < 0.7 and ln >= 6:
                pl = streams.rand_defined_payload(rng)
                pl = (pl + bytes(rng.getrandbits(8) for _ in range(ln)))[: ln - 6]
                buf = refcrc.frame(pl)
            else:
                buf = (b"\xd3" + bytes([rng.getrandbits(2), rng.getrandbits(8)])
                       + bytes(rng.getrandbits(8) for _ in range(ln)))[:ln]
            for v in (0, 1):
                _parse(ctx, buf, v, rng.choice((1, 2)))
        ctx.hit("parse_lengths_enumerated")
    # (c2) EVERY prefix of small streams is itself a finite stream (end of data at every offset), over
    #      standard-library stream objects (BytesIO, BufferedReader: peek / seek / readinto available)
    for it in range(ctx.n(40, 1200)):
        data, _ = c01.make_stream(rng, small=True)
        data = data[:260]
        mode = it % 3
        for cut in range(0, len(data) + 1):
            _plain_stream(ctx, data[:cut], mode, (it + cut) % 2, ("bytesio", "buffered")[cut % 2], "prefix")
        ctx.hit("prefix_enumerations")
    # (c3) long uninterrupted runs of errors (thousands of false syncs / bad-CRC frames) before a good frame
    for it in range(ctx.n(16, 200)):
        good = refcrc.frame(streams.rand_defined_payload(rng))
        style = it % 3
        n = rng.choice((1100, 1500, 3000))
        if style == 0:
            run_ = b"\xd3\xff" * n
        elif style == 1:
            fr = refcrc.frame(streams.rand_unknown_payload(rng, 2))
            run_ = (fr[:-1] + bytes([fr[-1] ^ 1])) * n
        else:
            run_ = b"".join(rng.choice((b"\xd3\x7f", b"\xb5\x00", b"$x", b"\xd3\xd3")) for _ in range(n))
        _plain_stream(ctx, run_ + good, it % 2, 1, "bytesio", "long-error-run")
        ctx.hit("long_error_runs")
    # (d) hostile finite streams with faults
    long_structures(ctx, rng)
    for i in range(ctx.n(5000, 120000)):
        data, _ = c01.make_stream(rng, small=rng.random() < 0.5)
        if rng.random() < 0.25:  # CRC-valid frames with nonsensical content
            extra = []
            for _ in range(rng.randint(1, 4)):
                try:
                    enc = refmodel.build(rng.choice(ids), rng, "random", "small")
                except refmodel.DefinitionError:
                    continue
                lab, p = rng.choice(mutants(rng, enc))
                if len(p) <= 1023:
                    extra.append(refcrc.frame(p))
            data = b"".join(extra) + data
        mode = i % 3
        validate = (i // 3) % 2
        if i % 4 == 3:
            enc_opt = rng.choice((0, 0, 1, 1, 3, 5, 9))
            if enc_opt and rng.random() < 0.6:
                # half-plausible chunked garbage
                data = b"".join(rng.choice((b"%x\r\n" % rng.randint(0, 40), b"\r\n", b"0\r\n\r\n", b"0\r\n", b"0\r\nX: y\r\n", b"zz\r\n",
                                            b"-5\r\n", b"-ff\r\n", b"-8000000000000000\r\n", b"-1\r\n", b"ffffffff\r\n", b"f" * rng.randint(15, 40) + b"\r\n",
                                            b"7fffffffffffffff\r\n", b"8000000000000000\r\n", b"1" + b"0" * 30 + b"\r\n",
                                            b"0x10\r\n", b" 5 \r\n", b"5;ext=1\r\n", b"+3\r\n", b"1_0\r\n",
                                            bytes(rng.getrandbits(8) for _ in range(rng.randint(1, 30)))))
                                for _ in range(rng.randint(2, 14))) + data[:200]
            sizes = [rng.choice((1, 2, 3, 7, 50, "T", "E", 400)) for _ in range(rng.randint(0, 25))]
            _stream(ctx, data, {}, mode, validate, 0, "socket",
                    {"sizes": sizes, "bufsize": rng.choice((1, 3, 64, 4096)), "encoding": enc_opt,
                     "labelmsm": rng.choice((1, 2, 0))})
        elif i % 16 == 5:
            _stream(ctx, data, {}, mode, validate, 0, rng.choice(("pipe", "makefile")), {"labelmsm": 1})
        elif i % 16 == 9:
            _stream(ctx, data, {}, mode, validate, 0, "serial", {"labelmsm": 1})
        else:
            ncalls = max(1, c01.count_calls(data))
            plan = {rng.randrange(ncalls): rng.choice(("short", "short", "empty", "eof", "partial"))
                    for _ in range(rng.choice((0, 1, 2, 4, 8)))}
            _stream(ctx, data, plan, mode, validate, rng.getrandbits(16), "file", {"labelmsm": rng.choice((1, 2, 0)),
                                                                                "rtype": rng.choice(("bytes", "bytes", "bytearray"))})


def long_structures(ctx, rng):
    """Inputs that are long in one dimension (one reader, one segment, one run): depth- and counter-type limits."""
    from vf import refchunk

    w = ctx.worker % 4
    if w == 0 or not ctx.quick:
        # ~1500 well-formed chunks of one or two bytes arriving in ONE receive (bufsize far above the default)
        inner = b"".join(streams.rand_frame(rng, "unknown")[0] for _ in range(40))[:2600]
        bodies, i = [], 0
        while i < len(inner):
            k = rng.choice((1, 1, 2))
            bodies.append(inner[i:i + k])
            i += k
        wire, _ = refchunk.encode(bodies, False, True, None, 0)
        for bufsize in (65536, 16384):
            _stream(ctx, wire, {}, rng.choice((0, 1)), 1, 0, "socket", {"sizes": [], "bufsize": bufsize, "encoding": 1})
        ctx.hit("long:many_chunks_in_one_segment")
    if w == 1 or not ctx.quick:
        # several hundred DISTINCT station-type messages through one reader
        frames = []
        for i in range(400):
            ident = ("1005", "1006", "1007", "1008", "1033", "1230")[i % 6]
            frames.append(refcrc.frame(streams.rand_defined_payload(rng, ident)))
        _stream(ctx, b"".join(frames), {}, rng.choice((0, 1)), 1, 0, "file", {})
        ctx.hit("long:many_distinct_station_messages")
    if w == 2 or not ctx.quick:
        # > 2000 complete NMEA / UBX items in a row, then a frame
        mid = b"".join(streams.nmea(rng, 16, sloppy=True) if rng.random() < 0.6 else streams.ubx(rng, 10) for _ in range(2400))
        _stream(ctx, mid + streams.rand_frame(rng, "defined")[0], {}, rng.choice((0, 1, 2)), 1, 0, "file", {})
        ctx.hit("long:foreign_runs")
    if w == 3 or not ctx.quick:
        # 70 000 frames of ONE message number through one reader (16-bit counters of anything)
        fr = [refcrc.frame(bytes([0xFF, 0xE0, i & 0xFF, (i >> 8) & 0xFF])) for i in range(256)]
        data = b"".join(fr[i % 256] for i in range(70000))
        _plain_stream(ctx, data, rng.choice((0, 1)), 1, "bytesio", "70000-frames-of-one-number")
        ctx.hit("long:many_frames_of_one_number")


def replay(ctx, p):
    common.quiet_logging()
    monitors.install_field_monitor()
    if p["kind"] == "ctor":
        _ctor(ctx, bytes.fromhex(p["payload"]), p.get("labelmsm", 1), rep=p.get("rep", "bytes"))
    elif p["kind"] == "parse":
        _parse(ctx, bytes.fromhex(p["buf"]), p["validate"], p.get("labelmsm", 1), rep=p.get("rep", "bytes"))
    elif p["kind"] == "plain":
        _plain_stream(ctx, bytes.fromhex(p["data"]), p["mode"], p["validate"], p["stream"], p.get("label", "replay"))
    else:
        _stream(ctx, bytes.fromhex(p["data"]), {int(k): v for k, v in p["plan"].items()}, p["mode"],
                p["validate"], p["pseed"], p["backend"], p["bparam"])
