"""C02 - No valid frame is lost, duplicated or reordered on well-formed mixed input.

Producer/consumer checker: the generator's own list of emitted frames that carry a message number
must equal, byte for byte and in order, the raw frames the real reader's iteration delivers; the
iteration must stop within a logical budget of read/recv calls.
"""

import io

from vf import common, doubles, refcrc, refmodel, streams

LEVEL = "exploration"
RULE = (
    "case = (sequence of items from {valid RTCM3 frame of implemented/unknown type with payload length "
    "0,1,2,255,256,1022,1023 or natural; complete NMEA sentence (every recognised prefix); complete UBX frame; "
    "inert noise run}, backend in {file-like, io.BufferedReader over chunky raw, real-socket subclass with random "
    "segmentation and bufsize}, error mode). distinct = blake2b(stream, backend, mode); non-trivial = the stream "
    "holds >= 2 number-carrying frames and >= 1 item of another kind (or a boundary-length frame)"
)
RULE += (
    ' Also: pipe and socket.makefile backends; UBX frames > 4096 bytes with sync-like tails; 4076 two-byte'
    ' frames; frames with steered checksum bytes (CR LF, sync bytes, zeros ...); raise-mode consumers via'
    ' read(), next(reader) and one iterator kept across the exceptions; streams that PAUSE once at item'
    ' boundaries (file double / receive timeout) with the consumer iterating the same reader again; socket'
    ' backend also over chunked transfer-encoding (plain / gzip / zlib / deflate) with chunk bodies ending'
    ' at item boundaries; one scripted socket in four is TLS-like (has read()); 40 % of the defined'
    ' messages laid out from the pinned layouts.'
)
RULE += (
    " Also: runs of related frames (counter byte +1, prefix of the previous payload, previous checksum inside the next payload), MSM triples with equal satellite / signal masks and growing cell masks, two-byte frames ending in 0xFE."
)
ASSUMPTIONS = [
    "NMEA sentences are CRLF-terminated printable ASCII; UBX frames are complete; noise excludes 0xD3/0xB5/0x24",
    "delivered frames whose payload is shorter than 2 bytes (3 for 4076) are ignored: the property does not speak of them",
    "termination is decided on logical steps (read/recv calls <= 3*len+16), never on wall-clock",
]
GATES = ["frames_compared", "runs_with_pauses", "iteration_resumed_after_pause", "socket_runs_chunked", "backend:file", "backend:buffered", "backend:socket", "kind:len0", "kind:len1023",
         "kind:len1", "kind:len2-4076", "kind:ubxbig"]

KINDS = ("defined", "defined", "defined", "unknown", "unknown", "len0", "len1", "len2", "len2-4076", "len255",
         "len256", "len1022", "len1023", "defmax", "steered", "steered", "len2-fe")


def make_items(rng, n=None, adversarial=None, quote=True):
    """Returns list of (kindname, bytes, payload_or_None)."""
    n = n or rng.randint(4, 22)
    items = []
    for _ in range(n):
        k = rng.random()
        if k < 0.55:
            kind = rng.choice(KINDS)
            fr, p, kind = streams.rand_frame(rng, kind)
            items.append((kind, fr, p))
        elif k < 0.70:
            items.append(("nmea", streams.nmea(rng), None))
        elif k < 0.85:
            if rng.random() < 0.04:
                items.append(("ubxbig", streams.ubx_big(rng), None))
            elif quote and rng.random() < 0.12:
                items.append(("ubx", streams.ubx_quote(rng), None))
            else:
                items.append(("ubx", streams.ubx(rng, 4096 if rng.random() < 0.1 else 200, dense=rng.random() < 0.5), None))
        else:
            items.append(("noise", streams.inert_noise(rng), None))
    # static messages repeat verbatim; a different frame may carry the same CRC trailer
    frames = [it for it in items if it[2] is not None and 8 < len(it[1]) < 700 and streams.has_msgnum(it[2])]
    for _ in range(rng.choice((0, 0, 1, 2))):
        if not frames:
            break
        k, fr, p = rng.choice(frames)
        if rng.random() < 0.5:
            new = (k, fr, p)
        else:
            c = streams.crc_collider(fr, rng)
            # only for unimplemented numbers: changing payload bits of a defined message need not leave it valid
            unk = common.expected_identity(p) not in refmodel.tables()[0]
            new = ("collider", c, c[3:-3]) if c is not None and unk else (k, fr, p)
        items.insert(rng.randrange(len(items) + 1), new)
    if adversarial == "zero-first":
        items.insert(0, ("len0", streams.rand_frame(rng, "len0")[0], b""))
    elif adversarial == "zero-last":
        items.append(("len0", streams.rand_frame(rng, "len0")[0], b""))
    elif adversarial == "zero-max":
        i = rng.randrange(len(items) + 1)
        fr, p, _ = streams.rand_frame(rng, "len1023")
        items[i:i] = [("len0", streams.rand_frame(rng, "len0")[0], b""), ("len1023", fr, p),
                      ("len0", streams.rand_frame(rng, "len0")[0], b"")]
    elif adversarial == "unknown-run":
        i = rng.randrange(len(items) + 1)
        run = []
        for _ in range(rng.randint(2, 5)):
            fr, p, _ = streams.rand_frame(rng, "unknown")
            run.append(("unknown", fr, p))
        items[i:i] = run
    elif adversarial == "related-run":
        # consecutive frames that are RELATED: a counter byte going up by one, equal lengths, one payload a prefix of
        # the previous one, the previous frame's checksum bytes repeated inside the next payload
        i = rng.randrange(len(items) + 1)
        base = streams.rand_unknown_payload(rng, rng.randint(6, 40))
        run = [("unknown", refcrc.frame(base), base)]
        for step in range(rng.randint(2, 5)):
            prev = run[-1][2]
            kind = rng.randrange(4)
            if kind == 0:
                j = rng.randrange(2, len(prev))
                nxt = prev[:j] + bytes([(prev[j] + 1) & 0xFF]) + prev[j + 1:]
            elif kind == 1:
                nxt = prev[: max(3, len(prev) - rng.randint(1, 3))]
            elif kind == 2:
                nxt = prev[:2] + bytes(rng.getrandbits(8) for _ in range(len(prev) - 2))
            else:
                nxt = prev[:2] + refcrc.frame(prev)[-3:] + prev[5:] if len(prev) > 6 else prev + b"\x01"
            run.append(("unknown", refcrc.frame(nxt), nxt))
        if rng.random() < 0.4:
            # two MSM frames of one constellation with the same satellite and signal masks, the second with MORE cells
            import random as _r

            ident = rng.choice(("1074", "1084", "1094", "1124", "1077", "1127"))
            nsat, nsig = rng.randint(2, 6), rng.randint(2, 4)
            sat = sum(1 << b for b in rng.sample(range(64), nsat))
            sig = sum(1 << b for b in rng.sample(range(32), nsig))
            cm1 = rng.getrandbits(nsat * nsig) & rng.getrandbits(nsat * nsig) | 1
            for cm in (cm1, (1 << (nsat * nsig)) - 1, cm1):
                try:
                    e_ = refmodel.build(ident, _r.Random(rng.getrandbits(32)), "random", "small", "random",
                                        force={"DF394": sat, "DF395": sig, "DF396": cm})
                    run.append(("defined", refcrc.frame(e_.payload), e_.payload))
                except Exception:
                    pass
        items[i:i] = run
    elif adversarial == "filler-run":
        i = rng.randrange(len(items) + 1)
        run = []
        for _ in range(rng.randint(2, 4)):
            kk = rng.choice(("len0", "len1", "len2-4076"))
            fr, p, _ = streams.rand_frame(rng, kk)
            run.append((kk, fr, p))
        items[i:i] = run
    return items


def run_case(ctx, items, backend, mode, bparam):
    from pyrtcm import RTCMReader

    libs = common.lib_errors()
    data = b"".join(it[1] for it in items)
    expected = [it[1] for it in items if it[2] is not None and streams.has_msgnum(it[2])]
    # pauses: item boundaries at which the underlying stream delivers nothing ONCE (a file that is still growing, a
    # serial / socket timeout between two items); the consumer then simply iterates the same reader again
    pauses = [o for o in bparam.get("pauses", ()) if 0 < o < len(data)]
    budget = 3 * len(data) + 16 + 4 * len(pauses)
    params = {"items": [[k, b.hex(), (p.hex() if p is not None else None)] for k, b, p in items],
              "backend": backend, "mode": mode, "bparam": bparam}
    sock = None
    feeder = None
    if backend == "file":
        stream = doubles.RecordingStream(data, budget=budget, pauses=pauses)
        counter = stream
    elif backend == "serial":  # the surface of a pyserial port (in_waiting, reset_input_buffer, timeout ...)
        stream = doubles.SerialLikeStream(data, budget=budget, pauses=pauses)
        counter = stream
    elif backend == "buffered":
        raw = doubles.RawChunky(data, bparam["sizes"])
        stream = doubles.CountingStream(io.BufferedReader(raw, buffer_size=bparam.get("bufsize", 64)), budget)
        counter = stream
    elif backend in ("pipe", "makefile"):
        inner, feeder = (doubles.pipe_file if backend == "pipe" else doubles.makefile_stream)(data)
        stream = doubles.CountingStream(inner, budget)
        counter = stream
    else:
        sizes = bparam["sizes"]
        if pauses:  # segments end exactly at the chosen item boundaries and are followed by a receive timeout
            sizes, prev = [], 0
            for off in sorted(set(pauses)):
                sizes += [off - prev, "T"]
                prev = off
        wire = data
        if bparam.get("chunked"):
            # the same bytes over HTTP chunked transfer-encoding (optionally compressed per chunk): chunk bodies end
            # at the item boundaries in `chunked` (so bodies end in CR LF, in checksum bytes, ...) and are cut again
            # every 700 bytes
            from vf import refchunk

            bodies, prev = [], 0
            for off in sorted(set(bparam["chunked"])) + [len(data)]:
                while off - prev > 700:
                    bodies.append(data[prev:prev + 700])
                    prev += 700
                if off > prev:
                    bodies.append(data[prev:off])
                    prev = off
            wire, _ = refchunk.encode(bodies, bool(len(data) & 1), True, bparam.get("how"), 0)
            ctx.hit("socket_runs_chunked")
            budget = 4 * len(wire) + 64
        sock = doubles.ScriptedSocket(wire, sizes, budget=budget)
        stream = sock
        counter = None
    if pauses:
        ctx.hit("runs_with_pauses")

    def more_to_come():
        if not pauses:
            return False
        if backend in ("file", "serial"):
            return not stream.exhausted
        return sock._vpos < len(data) or bool(sock._sched[sock._si:])

    delivered = []
    stopped = False
    problem = None
    try:
        from vf.checks import c12

        from vf import posargs

        # some readers get their leading options by POSITION, in the documented order
        npos = posargs.npos_for(len(data) // 3)
        ctx.hit(f"reader_positional_args_{npos}")
        rdr = posargs.make_reader(RTCMReader, stream, npos, validate=1, quitonerror=mode,
                                  bufsize=bparam.get("bufsize", 4096),
                                  # one reader in five returns raw frames only: the same frames in the same order
                                  parsed=(len(data) % 5 != 3),
                                  errorhandler=(lambda e: None), labelmsm=(1, 2, True)[len(data) % 3],
                                  encoding=c12.ENC[bparam.get("how")] if bparam.get("chunked") else 0)
        if mode in (0, 1):
            try:
                rounds = 0
                while True:
                    for raw, parsed in rdr:
                        delivered.append(bytes(raw))
                        if len(delivered) > len(items) + 8:
                            problem = ("no-stop", "iteration keeps delivering beyond the number of items")
                            break
                    else:
                        stopped = True
                    rounds += 1
                    if problem or not more_to_come() or rounds > len(pauses) + 2:
                        break
                    stopped = False
                    ctx.hit("iteration_resumed_after_pause")
            except doubles.BudgetExceeded as e:
                problem = ("no-stop", f"iteration did not stop within the read budget: {e}")
            except Exception as e:
                problem = ("iteration-raised", f"iteration ended by {type(e).__name__}: {e}")
        else:
            guard = len(items) * 4 + 16 + 2 * len(pauses)
            # raise-mode consumers: read(); next(reader); an iterator obtained once and kept across the exceptions
            style = (len(data) + len(items)) % 3
            it = iter(rdr) if style == 2 else rdr
            ctx.hit(("raise_via_read", "raise_via_next", "raise_via_held_iterator")[style])
            while guard > 0:
                guard -= 1
                try:
                    if style == 0:
                        raw, parsed = rdr.read()
                    else:
                        try:
                            raw, parsed = next(it)
                        except StopIteration:
                            raw = parsed = None
                except libs:
                    continue
                except doubles.BudgetExceeded as e:
                    problem = ("no-stop", f"read() did not finish within the read budget: {e}")
                    break
                except Exception as e:
                    problem = ("iteration-raised", f"read() raised {type(e).__name__}: {e}")
                    break
                if raw is None and parsed is None:
                    if more_to_come():
                        ctx.hit("iteration_resumed_after_pause")
                        continue
                    stopped = True
                    break
                delivered.append(bytes(raw))
            else:
                problem = ("no-stop", "read() keeps returning beyond the number of items")
    finally:
        if sock is not None:
            sock.close()
        if feeder is not None:
            try:
                inner.close()
            except OSError:
                pass
            feeder.join(5)
    # the property does not speak of frames without a message number
    got = [r for r in delivered if len(r) >= 6 and streams.has_msgnum(r[3:-3])]
    ctx.hit("frames_compared", len(expected))
    ctx.hit("backend:" + backend)
    ctx.hit(f"mode{mode}")
    prev = "start"
    for k, _, p in items:
        ctx.hit("kind:" + k)
        if p is not None:
            ctx.hit(f"before-frame:{prev}")
        prev = k if p is None else "frame"
    if got != expected:
        # describe the first divergence
        i = 0
        while i < len(got) and i < len(expected) and got[i] == expected[i]:
            i += 1
        kinds = [k for k, _, p in items]
        why = (f"delivered {len(got)} of {len(expected)} number-carrying frames; first divergence at frame {i}; "
               f"item kinds {kinds}")
        if problem:
            why += f"; {problem[1]}"
        mech = "frames-lost" if len(got) < len(expected) else "frames-duplicated-or-reordered"
        if len(got) < len(expected) and any(k in ("len0", "len1") for k in kinds):
            # classify by mechanism: what precedes the first lost frame
            pass
        ctx.violation(mech, why, params)
        return
    if problem:
        ctx.violation(problem[0], problem[1], params)
        return
    if not stopped:
        ctx.violation("no-stop", "iteration did not stop", params)
        return
    nframes = len(expected)
    others = sum(1 for k, _, p in items if p is None or k.startswith("len"))
    ctx.case(data + backend.encode() + bytes([mode]) + repr(bparam).encode(), nframes >= 2 and others >= 1)
    ctx.sample({"kinds": [k for k, _, _ in items], "stream_len": len(data), "backend": backend,
                "mode": mode, "frames_expected": nframes, "frames_delivered": len(got),
                "read_calls": (counter.calls if counter else len(sock.recv_log)), "budget": budget})


def backend_param(rng, backend, total, bounds=()):
    if backend in ("file", "serial") and bounds and rng.random() < 0.35:
        return {"pauses": sorted(rng.sample(list(bounds), rng.randint(1, min(3, len(bounds)))))}
    if backend in ("file", "pipe", "makefile", "serial"):
        return {}
    if backend == "buffered":
        return {"sizes": [rng.choice((1, 2, 3, 5, 17, 64, 1000)) for _ in range(rng.randint(1, 6))],
                "bufsize": rng.choice((8, 16, 64, 8192))}
    style = rng.random()
    if style < 0.2:
        sizes = [1] * min(total, 3000)
    elif style < 0.4:
        sizes = []
    else:
        sizes = [rng.choice((1, 2, 3, 5, 6, 7, 30, 100, 1029, 4096)) for _ in range(rng.randint(1, 60))]
    out = {"sizes": sizes, "bufsize": rng.choice((1, 2, 3, 7, 64, 512, 4096, 65536))}
    k = rng.random()
    if bounds and k < 0.3:
        out["pauses"] = sorted(rng.sample(list(bounds), rng.randint(1, min(3, len(bounds)))))
    elif bounds and k < 0.5:
        out["chunked"] = sorted(rng.sample(list(bounds), rng.randint(1, min(6, len(bounds)))))
        out["how"] = rng.choice((None, None, "gzip", "zlib", "deflate"))
    return out


def run(ctx):
    common.quiet_logging()
    rng = ctx.rng
    # the repository's recorded logs as they are (realistic sequences: repeated station messages, epochs, mixed
    # NMEA / UBX traffic), over every backend, with pauses between frames
    logs = [(n, d[:60000]) for n, d in common.recorded_logs(4000000) if "BAD" not in n.upper()]
    for k_, (name_, data_) in enumerate(logs):
        items = log_items(data_)
        if len(items) < 2:
            continue
        bounds, off = [], 0
        for _, b, _p in items[:-1]:
            off += len(b)
            bounds.append(off)
        for backend in ("file", "buffered", "socket", "pipe"):
            if (k_ + len(backend)) % ctx.nworkers % 4 != ctx.worker % 4:
                continue
            run_case(ctx, items, backend, rng.choice((0, 1, 2)), backend_param(rng, backend, len(data_), bounds))
            ctx.hit("recorded_logs_streamed")
    # long runs: > 1000 complete NMEA / UBX items between two frames; > 1 MiB through one socket reader
    if ctx.worker % 4 == 1 or not ctx.quick:
        f1, p1, _ = streams.rand_frame(rng, "defined")
        f2, p2, _ = streams.rand_frame(rng, "unknown")
        mid = [("nmea", streams.nmea(rng, 20), None) if rng.random() < 0.7 else ("ubx", streams.ubx(rng, 12), None)
               for _ in range(2200)]
        for backend in ("file", "socket"):
            run_case(ctx, [("defined", f1, p1)] + mid + [("unknown", f2, p2)], backend, rng.choice((0, 1)),
                     backend_param(rng, backend, 0))
        ctx.hit("long_foreign_runs")
    if ctx.worker % 4 == 2 or not ctx.quick:
        big = []
        for i in range(2400):
            fr, p, _ = streams.rand_frame(rng, rng.choice(("len1023", "len1022", "len255", "unknown")))
            big.append(("big", fr, p))
        run_case(ctx, big, "socket", 0, {"sizes": [rng.choice((1460, 4096, 8192, 65536)) for _ in range(1200)],
                                         "bufsize": rng.choice((4096, 65536))})
        ctx.hit("long_socket_sessions")
    advs = (None, None, "zero-first", "zero-last", "zero-max", "unknown-run", "filler-run", "related-run")
    for i in range(ctx.n(24000, 300000)):
        items = make_items(rng, adversarial=advs[i % len(advs)])
        backend = ("file", "buffered", "socket", "serial", "buffered", "socket", "pipe", "makefile", "file")[i % 9]
        if backend == "socket" and i % 5 == 0:
            items.insert(0, ("greeting", streams.greeting(rng), None))  # what a caster says before the data
        mode = rng.choice((0, 1, 2))
        total = sum(len(b) for _, b, _ in items)
        bounds, off = [], 0
        for _, b, _ in items[:-1]:
            off += len(b)
            bounds.append(off)
        run_case(ctx, items, backend, mode, backend_param(rng, backend, total, bounds))


def log_items(data):
    """A recorded log as an item list: frames found by own framing, everything between them as one foreign item."""
    items, prev = [], 0
    for off, fr in common.split_frames(data):
        if off > prev:
            items.append(("gap", data[prev:off], None))
        ident = common.expected_identity(fr[3:-3])
        short = False
        if ident in refmodel.identities():
            try:
                refmodel.decode(ident, fr[3:-3])
            except refmodel.Short:
                short = True  # CRC-valid but too short for its type (a caster's truncated 1302): not a valid frame
            except refmodel.DefinitionError:
                pass
        items.append(("rec-short", fr, None) if short else ("rec", fr, fr[3:-3]))
        prev = off + len(fr)
    if prev < len(data):
        items.append(("gap", data[prev:], None))
    return items


def replay(ctx, p):
    common.quiet_logging()
    items = [(k, bytes.fromhex(b), (bytes.fromhex(pl) if pl is not None else None)) for k, b, pl in p["items"]]
    run_case(ctx, items, p["backend"], p["mode"], p["bparam"])
