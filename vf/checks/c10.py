"""C10 - Message layouts conform to the published standards and to each other.

Monitors (all at the boundary of the real RTCMMessage parser):
 * length: payloads generated from PINNED geometry alone (vf.stdgeom, no repo definitions) must parse and
   consume exactly the standard number of bits - measured by bit sensitivity (flipping the last message bit
   changes the result, flipping any pad bit does not) and by the smallest accepted whole-byte length;
 * referential integrity: every definition walks cleanly (fields defined, counters/conditions decoded earlier)
   and a populated message built from it parses;
 * sibling relations: parallel / composite / extended message families decode identical block bits to
   identical value sequences (compared by position, never by name).
"""

import random
import re

from vf import bits as B
from vf import monitors, refmodel, refmsm, stdgeom

LEVEL = "exploration"
RULE = (
    "cases: (P) 134 identities with PINNED field-level layouts (names, order, widths, number representation, "
    "resolution; vf.stdlayout): message built from the pinned layout -> identical attributes and values; "
    "(L) identity x count strategy {zero, one, max-that-fits, small, random}: payload of exactly the pinned "
    "standard length with random content -> parse succeeds, bit (len-1) is significant, every pad bit is not, "
    "ceil(len/8) bytes accepted and one byte less rejected; (I) every defined identity: definition walk + populated "
    "reference message parses; (S) sibling families (RTK basic/extended GPS+GLONASS, network RTK, SSR orbit|clock|"
    "combined for GPS, GLONASS and 6 IGS constellations, code-bias / URA / high-rate parallels, residuals, FKP, "
    "1005/1006, 1007/1008/1033, 1021/1022, 1045/1046, MSM level across 7 constellations) with random shared block "
    "bits -> equal value sequences. distinct = blake2b(relation, payloads); non-trivial = message has >= 1 repeated "
    "item or relation compares >= 1 shared field"
)
RULE += (
    ' Also: before every decode the one-bit neighbours (message number / 4076 sub-type) of the identity'
    ' are parsed as short messages; MSM decodes are repeated under label options 2 and 0; code-bias /'
    ' phase-bias nesting relations, MSM level relations and prefix relations between message families.'
)
RULE += (
    " Also: 4076_201 with consecutive layers of another (degree, order) but the same number of cosine coefficients."
)
RULE += (
    " Also: a family member without any payload definition is a violation."
)
ASSUMPTIONS = [
    "vf.stdgeom pins RTCM 10403.3 (2016) and IGS SSR v1.00 bit geometry from memory of the standards; entries with "
    "provenance T (1300-1305, NavIC MSM) follow later amendments",
    "sibling values are compared by position within an item, so field naming differences between constellations "
    "do not matter",
]
GATES = ["harmonic_layers_with_equal_cosine_counts", "length_checked", "integrity_checked", "sibling_checked", "family:ssr-igs", "family:gps-rtk",
         "family:msm-level", "last_bit_significant", "pad_bits_insignificant", "pinned_checked"]

_IDX = re.compile(r"^(.*?)((?:_\d{2,3})+)$")


def parse(payload):
    from pyrtcm import RTCMMessage

    warm(payload)
    msg = RTCMMessage(payload=payload)
    num = (payload[0] << 4) | (payload[1] >> 4) if len(payload) >= 2 else 0
    if 1070 < num < 1140 and payload[-1] % 4 == 0:
        # an MSM definition must be decodable under every label option value (0, 2: the others besides the default);
        # a raise here propagates to the caller exactly like a failure of the decode above
        for opt in (2, 0):
            other = RTCMMessage(payload=payload, labelmsm=opt)
            if [k for k in vars(other) if not k.startswith("_")] != [k for k in vars(msg) if not k.startswith("_")]:
                raise AssertionError(f"labelmsm={opt} yields different attribute names than labelmsm=1")
        OPTIONS_TRIED[0] += 1
    return msg


OPTIONS_TRIED = [0]


def warm(payload):
    """Before every decode, the neighbours of its identity (message number / 4076 sub-type differing in one bit) are
    parsed as short messages: whether an identity has a definition must not depend on what was parsed before."""
    from pyrtcm import RTCMMessage

    if len(payload) < 3:
        return
    num = (payload[0] << 4) | (payload[1] >> 4)
    k = payload[-1] + len(payload)
    qs = []
    if num == 4076:
        v = int.from_bytes(payload[:3], "big")
        for bit in (7, k % 7):
            qs.append((v ^ (1 << (bit + 1))).to_bytes(3, "big") + payload[3:9])
    else:
        for bit in (11, k % 11):
            n2 = num ^ (1 << bit)
            qs.append(bytes([n2 >> 4, ((n2 & 0xF) << 4) | (payload[1] & 0x0F)]) + payload[2:9])
    for q in qs:
        try:
            RTCMMessage(payload=q)
        except Exception:
            pass
    WARMED[0] += len(qs)


WARMED = [0]


def attrs(msg):
    return [(k, v) for k, v in msg.__dict__.items() if not k.startswith("_")]


def outcome(payload):
    try:
        return ("ok", attrs(parse(payload)))
    except Exception as e:
        return ("err", type(e).__name__)


def same(a, b):
    if a[0] != b[0]:
        return False
    if a[0] == "err":
        return True
    if len(a[1]) != len(b[1]):
        return False
    return all(n1 == n2 and refmodel.values_equal(v1, v2) for (n1, v1), (n2, v2) in zip(a[1], b[1]))


# ------------------------------------------------------------------------------ (L) length
def length_case(ctx, identity, cstrat, seedtag):
    rng = random.Random(seedtag)
    params = {"kind": "length", "identity": identity, "cstrat": cstrat, "seedtag": seedtag}
    for attempt in range(3):
        nbits, val, chosen = stdgeom.generate(identity, rng, cstrat)
        payload, pw = stdgeom.to_payload(nbits, val, rng.getrandbits(8))
        monitors.CURRENT["identity"] = identity
        monitors.CURRENT["last_offset"] = None
        base = outcome(payload)
        internal = monitors.CURRENT.get("last_offset")
        if base[0] != "ok":
            try:
                parse(payload)
            except Exception as e:
                msg = str(e)[:200]
            ctx.violation("standard-length-message-rejected",
                          f"{identity} ({stdgeom.PROVENANCE.get(identity)}) counts {chosen}: a payload of the standard "
                          f"length {nbits} bits (+{pw} pad) is rejected: {base[1]}: {msg}", params)
            return
        last = outcome(B.flip_bits(payload, [nbits - 1]))
        if same(base, last):
            if attempt < 2:
                continue  # e.g. sign bit of a zero sign-magnitude value: retry with other content
            ctx.violation("consumes-fewer-bits",
                          f"{identity} counts {chosen}: flipping the last message bit ({nbits - 1}) changes nothing: "
                          f"the layout occupies fewer bits than the standard's {nbits}", params)
            return
        ctx.hit("last_bit_significant")
        for pb in range(nbits, nbits + pw):
            if not same(base, outcome(B.flip_bits(payload, [pb]))):
                ctx.violation("consumes-more-bits",
                              f"{identity} counts {chosen}: flipping pad bit {pb} (standard length {nbits}) changes "
                              f"the result: the layout occupies more bits than the standard specifies", params)
                return
            ctx.hit("pad_bits_insignificant")
        need = (nbits + 7) // 8
        if outcome(payload[:need])[0] != "ok":
            ctx.violation("standard-length-message-rejected",
                          f"{identity} counts {chosen}: {need} bytes (= ceil({nbits}/8)) rejected", params)
            return
        if need > (3 if identity.startswith("4076") else 2) and outcome(payload[: need - 1])[0] == "ok":
            ctx.violation("consumes-fewer-bits",
                          f"{identity} counts {chosen}: {need - 1} bytes accepted though the standard needs {nbits} bits",
                          params)
            return
        if internal is not None:
            ctx.hit("internal_offset_equal" if internal == nbits else "internal_offset_differs")
        ctx.hit("length_checked")
        ctx.hit("provenance:" + stdgeom.PROVENANCE.get(identity, "?"))
        items = sum(v if isinstance(v, int) else 1 for _, v in chosen if not isinstance(v, (list, tuple))) if chosen else 0
        ctx.case(f"L|{identity}|{val:x}", bool(chosen) and any(
            (isinstance(v, int) and v > 0) or (isinstance(v, (list, tuple)) and any(v)) for _, v in chosen) or not chosen)
        return


# ------------------------------------------------------------------------------ (P) pinned field layouts
def pinned_case(ctx, identity, vs, cs, ms, seedtag, mech="pinned-layout-mismatch"):
    """Message built from the PINNED field-level layout (names, order, widths, representation, resolution):
    the real parser must produce exactly those attributes and values."""
    from vf import stdlayout

    rng = random.Random(seedtag)
    params = {"kind": "pinned", "identity": identity, "vstrat": vs, "cstrat": cs, "mstrat": ms, "seedtag": seedtag}
    enc = refmodel.build(identity, rng, vs, cs, ms, tabs=(stdlayout.LAYOUT, stdlayout.F))
    try:
        msg = parse(enc.payload)
    except Exception as e:
        ctx.violation(mech, f"{identity}: a message laid out as the standard specifies ({vs},{cs},{ms}) is rejected: "
                      f"{type(e).__name__}: {str(e)[:160]}", params)
        return
    diff = refmodel.compare_pinned(enc, msg, stdlayout.F)
    ctx.hit("pinned_checked")
    if diff:
        ctx.violation(mech, f"{identity} ({vs},{cs},{ms}): {diff}", params)
        return
    ctx.case(b"P|" + enc.payload, len(enc.expected) > 1)


# ------------------------------------------------------------------------------ (I) integrity
def integrity_case(ctx, identity, seedtag):
    rng = random.Random(seedtag)
    params = {"kind": "integrity", "identity": identity, "seedtag": seedtag}
    defs, fields = refmodel.tables()
    try:
        counters, conds, leaves = refmodel.prescan(defs[identity])
    except refmodel.DefinitionError as e:
        ctx.violation("malformed-definition", f"{identity}: {e}", params)
        return
    for lf in leaves:
        if lf not in fields:
            ctx.violation("undefined-field", f"{identity}: names field {lf!r} which is not a defined data field", params)
            return
    if not refmodel.reachable(identity):
        ctx.hit("unreachable_identity")
        return
    for cs in ("one", "small", "max"):
        try:
            enc = refmodel.build(identity, rng, "random", cs, "dense")
        except refmodel.DefinitionError as e:
            ctx.violation("malformed-definition", f"{identity}: {e}", params)
            return
        try:
            parse(enc.payload)
        except Exception as e:
            ctx.violation("definition-not-decodable", f"{identity} ({cs}): populated message rejected: "
                          f"{type(e).__name__}: {str(e)[:200]}", params)
            return
    ctx.hit("integrity_checked")
    ctx.case(f"I|{identity}|{seedtag}", True)


# ------------------------------------------------------------------------------ (S) siblings
def r(n):
    return list(range(n))


def OWN(w):
    return ("own", w)


GPS_RTK = [6, 1, 24, 20, 7, 8, 8, 2, 14, 20, 7, 8]
GLO_RTK = [6, 1, 5, 25, 20, 7, 7, 8, 2, 14, 20, 7, 8]
NET = [6, 2, 3, 17, 8, 17]
SSR6 = [6, 8, 22, 20, 20, 21, 19, 19, 22, 21, 27]
SSR5 = [5, 8, 22, 20, 20, 21, 19, 19, 22, 21, 27]
RESID = [8, 9, 6, 10, 10]
FKP = [12, 12, 14, 14]

FAMILIES = [
    ("gps-rtk", GPS_RTK, {"1001": [0, 1, 2, 3, 4], "1002": [0, 1, 2, 3, 4, 5, 6], "1003": [0, 1, 2, 3, 4, 7, 8, 9, 10],
                          "1004": r(12)}),
    ("glonass-rtk", GLO_RTK, {"1009": r(6), "1010": r(8), "1011": [0, 1, 2, 3, 4, 5, 8, 9, 10, 11], "1012": r(13)}),
    ("gps-netrtk", NET, {"1015": [0, 1, 2, 5], "1016": [0, 1, 2, 3, 4], "1017": r(6)}),
    ("glonass-netrtk", NET, {"1037": [0, 1, 2, 5], "1038": [0, 1, 2, 3, 4], "1039": r(6)}),
    ("ssr-gps", SSR6, {"1057": r(8), "1058": [0, 8, 9, 10], "1060": r(11)}),
    ("ssr-glonass", SSR5, {"1063": r(8), "1064": [0, 8, 9, 10], "1066": r(11)}),
    ("ssr-orbit-parallel", SSR6[1:8], {"1057": [OWN(6)] + r(7), "1063": [OWN(5)] + r(7), "4076_021": [OWN(6)] + r(7),
                                       "4076_061": [OWN(6)] + r(7)}),
    ("ssr-clock-parallel", [22, 21, 27], {"1058": [OWN(6)] + r(3), "1064": [OWN(5)] + r(3), "4076_022": [OWN(6)] + r(3),
                                          "4076_102": [OWN(6)] + r(3)}),
    ("ssr-hr-parallel", [22], {"1062": [OWN(6), 0], "1068": [OWN(5), 0], "4076_024": [OWN(6), 0], "4076_084": [OWN(6), 0]}),
    ("ssr-ura-parallel", [6], {"1061": [OWN(6), 0], "1067": [OWN(5), 0], "4076_027": [OWN(6), 0], "4076_127": [OWN(6), 0]}),
    ("residuals", RESID, {"1030": [OWN(6)] + r(5), "1031": [OWN(6)] + r(5), "1303": [OWN(6)] + r(5),
                          "1304": [OWN(6)] + r(5), "1305": [OWN(4)] + r(5)}),
    ("fkp", FKP, {"1034": [OWN(6), OWN(8)] + r(4), "1035": [OWN(6), OWN(8)] + r(4)}),
]
for _base, _nm in ((20, "gps"), (40, "glonass"), (60, "galileo"), (80, "qzss"), (100, "beidou"), (120, "sbas")):
    FAMILIES.append(("ssr-igs", SSR6, {f"4076_{_base + 1:03d}": r(8), f"4076_{_base + 2:03d}": [0, 8, 9, 10],
                                       f"4076_{_base + 3:03d}": r(11)}))
# all IGS constellations share each IGM layout
for _k, _sup in ((1, SSR6[:8]), (2, [6, 22, 21, 27]), (3, SSR6), (4, [6, 22]), (7, [6, 6])):
    FAMILIES.append(("igs-parallel", _sup, {f"4076_{b + _k:03d}": r(len(_sup)) for b in (20, 40, 60, 80, 100, 120)}))


def item_values(msg_attrs, i):
    """Ordered values of the attributes whose FIRST group index is i."""
    out = []
    for n, v in msg_attrs:
        m = _IDX.match(n)
        if not m:
            continue
        first = m.group(2).split("_")[1]
        if int(first) == i:
            out.append(v)
    return out


def item_names(msg_attrs, i):
    """Ordered un-indexed attribute names of the attributes whose first group index is i."""
    out = []
    for n, _ in msg_attrs:
        m = _IDX.match(n)
        if m and int(m.group(2).split("_")[1]) == i:
            out.append(m.group(1))
    return out


SAME_NAMES = {"gps-rtk", "glonass-rtk", "gps-netrtk", "glonass-netrtk", "ssr-gps", "ssr-glonass", "ssr-igs",
              "igs-parallel"}


def build_with_items(identity, rng, items):
    """Standard header for `identity` with counter n = len(items), then the given (value, width) items."""
    g = stdgeom.Gen(identity, rng, "random")
    spec = stdgeom.SPEC[identity]
    for t in spec:
        if isinstance(t, tuple) and t[0] == "c" and t[2] == "n":
            g.put(len(items), t[1])
        elif isinstance(t, tuple) and t[0] == "rep" and t[1] == "n":
            for v, w in items:
                g.put(v, w)
        else:
            g.walk([t])
    total = ((g.n + 7) // 8) * 8
    return ((g.val << (total - g.n)) | rng.getrandbits(total - g.n)).to_bytes(total // 8, "big")


def sibling_case(ctx, fam_index, seedtag):
    rng = random.Random(seedtag)
    name, sup, members = FAMILIES[fam_index]
    params = {"kind": "sibling", "family": fam_index, "name": name, "seedtag": seedtag}
    defs, _ = refmodel.tables()
    present = {k: v for k, v in members.items() if k in defs}
    gone = sorted(k for k in members if k not in defs)
    if gone:
        # a member of a family the standards define as parallel / composite that cannot be decoded at all decodes the
        # shared bits to nothing: the family claim fails for it
        ctx.violation("family-member-undefined", f"family {name}: {gone} ha{'s' if len(gone) == 1 else 've'} no payload "
                      f"definition while {sorted(present)} have: the same bits are not decoded to the same values", params)
        return
    if len(present) < 2:
        ctx.hit("family_members_missing")
        return
    n = rng.choice((1, 1, 2, 3, 5, 9, 15))
    style = rng.random()
    supvals = []
    for _ in range(n):
        row = []
        for w in sup:
            row.append((1 << (w - 1)) if style < 0.1 else ((1 << w) - 1) if style < 0.2 else rng.getrandbits(w))
        supvals.append(row)
    results = {}
    names = {}
    for ident, asm in present.items():
        items = []
        for row in supvals:
            v = 0
            wtot = 0
            for a in asm:
                if isinstance(a, tuple):
                    w = a[1]
                    x = rng.getrandbits(w)
                else:
                    w = sup[a]
                    x = row[a]
                v = (v << w) | x
                wtot += w
            items.append((v, wtot))
        payload = build_with_items(ident, rng, items)
        try:
            at = attrs(parse(payload))
        except Exception as e:
            ctx.violation("sibling-message-rejected", f"family {name}: {ident} with {n} items of "
                          f"{items[0][1]} bits rejected: {type(e).__name__}: {str(e)[:160]}", params)
            return
        per_item = [item_values(at, i + 1) for i in range(n)]
        if any(len(v) != len(asm) for v in per_item):
            ctx.violation("sibling-field-count", f"family {name}: {ident} decodes {len(per_item[0])} values per item, "
                          f"the standard's block has {len(asm)} fields", params)
            return
        results[ident] = per_item
        names[ident] = item_names(at, 1)
    idents = list(present)
    ref = idents[0]
    for other in idents[1:]:
        for s in range(len(sup)):
            if s in present[ref] and s in present[other]:
                pa = present[ref].index(s)
                pb = present[other].index(s)
                for i in range(n):
                    va = results[ref][i][pa]
                    vb = results[other][i][pb]
                    if not refmodel.values_equal(va, vb):
                        ctx.violation(
                            "sibling-values-differ",
                            f"family {name}: shared field #{s} ({sup[s]} bits, raw {supvals[i][s]}) of item {i + 1} "
                            f"decodes to {va!r} in {ref} (position {pa}) but {vb!r} in {other} (position {pb})", params)
                        return
    # members sharing fields not in ref: compare pairwise as well
    for a in range(len(idents)):
        for b in range(a + 1, len(idents)):
            A, Bm = idents[a], idents[b]
            for s in range(len(sup)):
                if s in present[A] and s in present[Bm]:
                    pa, pb = present[A].index(s), present[Bm].index(s)
                    for i in range(n):
                        if not refmodel.values_equal(results[A][i][pa], results[Bm][i][pb]):
                            ctx.violation(
                                "sibling-values-differ",
                                f"family {name}: shared field #{s} ({sup[s]} bits) of item {i + 1} decodes to "
                                f"{results[A][i][pa]!r} in {A} but {results[Bm][i][pb]!r} in {Bm}", params)
                            return
    if name in SAME_NAMES:
        # within one constellation the standard gives a shared field the same DF number in every sibling
        for a in range(len(idents)):
            for b in range(a + 1, len(idents)):
                A, Bm = idents[a], idents[b]
                for s in range(len(sup)):
                    if s in present[A] and s in present[Bm]:
                        na = names[A][present[A].index(s)]
                        nb_ = names[Bm][present[Bm].index(s)]
                        if na != nb_:
                            ctx.violation("sibling-names-differ",
                                          f"family {name}: shared field #{s} ({sup[s]} bits) is attribute {na} in {A} "
                                          f"but {nb_} in {Bm}", params)
                            return
        ctx.hit("sibling_names_checked")
    ctx.hit("sibling_checked")
    ctx.hit("family:" + name)
    ctx.case(f"S|{name}|{idents}|{supvals}", True)
    ctx.sample({"family": name, "members": idents, "items": n, "super_block_widths": sup,
                "first_item_values": {k: [str(x) for x in v[0]] for k, v in results.items()}}, limit=1)


def nested_bias_case(ctx, seedtag):
    """1059 ~ 1065 ~ IGM05 (6 constellations): code-bias blocks equal after the satellite ID."""
    rng = random.Random(seedtag)
    params = {"kind": "nested", "seedtag": seedtag}
    defs, _ = refmodel.tables()
    members = {"1059": 6, "1065": 5}
    members.update({f"4076_{b + 5:03d}": 6 for b in (20, 40, 60, 80, 100, 120)})
    members = {k: v for k, v in members.items() if k in defs}
    n = rng.randint(1, 6)
    tails = []
    for _ in range(n):
        nb = rng.randint(0, 6)
        v = nb
        w = 5
        for _ in range(nb):
            v = (v << 19) | rng.getrandbits(19)
            w += 19
        tails.append((v, w))
    res = {}
    for ident, sw in members.items():
        items = [((rng.getrandbits(sw) << w) | v, sw + w) for v, w in tails]
        try:
            at = attrs(parse(build_with_items(ident, rng, items)))
        except Exception as e:
            ctx.violation("sibling-message-rejected", f"code-bias family: {ident} rejected: {type(e).__name__}: "
                          f"{str(e)[:160]}", params)
            return
        res[ident] = [item_values(at, i + 1)[1:] for i in range(n)]
    ids = list(res)
    for o in ids[1:]:
        for i in range(n):
            a, b = res[ids[0]][i], res[o][i]
            if len(a) != len(b) or any(not refmodel.values_equal(x, y) for x, y in zip(a, b)):
                ctx.violation("sibling-values-differ", f"code-bias family: item {i + 1} decodes to {a[:6]} in {ids[0]} "
                              f"but {b[:6]} in {o}", params)
                return
    ctx.hit("sibling_checked")
    ctx.hit("family:code-bias")
    ctx.case(f"N|{tails}", True)


def phase_bias_case(ctx, seedtag):
    """IGM06 of the 6 IGS constellations share one layout."""
    rng = random.Random(seedtag)
    params = {"kind": "phase", "seedtag": seedtag}
    defs, _ = refmodel.tables()
    members = [f"4076_{b + 6:03d}" for b in (20, 40, 60, 80, 100, 120) if f"4076_{b + 6:03d}" in defs]
    n = rng.randint(1, 5)
    items = []
    for _ in range(n):
        nb = rng.randint(0, 5)
        v = (rng.getrandbits(6) << 5) | nb
        v = (v << 17) | rng.getrandbits(17)
        w = 28
        for _ in range(nb):
            v = (v << 32) | rng.getrandbits(32)
            w += 32
        items.append((v, w))
    res = {}
    for ident in members:
        try:
            at = attrs(parse(build_with_items(ident, rng, items)))
        except Exception as e:
            ctx.violation("sibling-message-rejected", f"phase-bias family: {ident} rejected: {type(e).__name__}: "
                          f"{str(e)[:160]}", params)
            return
        res[ident] = [item_values(at, i + 1) for i in range(n)]
    ids = list(res)
    for o in ids[1:]:
        if any(len(a) != len(b) or any(not refmodel.values_equal(x, y) for x, y in zip(a, b))
               for a, b in zip(res[ids[0]], res[o])):
            ctx.violation("sibling-values-differ", f"phase-bias family: {ids[0]} and {o} decode equal blocks differently",
                          params)
            return
    ctx.hit("sibling_checked")
    ctx.hit("family:phase-bias")
    ctx.case(f"P|{items}", True)


def msm_level_case(ctx, level, seedtag):
    """One MSM layout per level: identical bits after the 30-bit epoch decode to identical values."""
    rng = random.Random(seedtag)
    params = {"kind": "msm", "level": level, "seedtag": seedtag}
    defs, _ = refmodel.tables()
    base = f"107{level}"
    nbits, val, chosen = stdgeom.generate(base, rng, rng.choice(("small", "random", "one", "max")))
    res = {}
    for pre in refmsm.CONSTELLATION:
        ident = f"{pre}{level}"
        if ident not in defs:
            continue
        total = ((nbits + 7) // 8) * 8
        v = val & ((1 << (nbits - 12)) - 1) | (int(ident) << (nbits - 12))
        payload = (v << (total - nbits)).to_bytes(total // 8, "big")
        try:
            at = attrs(parse(payload))
        except Exception as e:
            ctx.violation("sibling-message-rejected", f"MSM{level}: {ident} rejects the bits {base} accepts "
                          f"({chosen}): {type(e).__name__}: {str(e)[:160]}", params)
            return
        skip = 4 if pre == "108" else 3  # message number, station, epoch (GLONASS: day-of-week + time)
        res[ident] = [(n, x) for n, x in at[skip:] if not n.startswith(("PRN_", "CELLPRN_", "CELLSIG_"))]
    ids = list(res)
    for o in ids[1:]:
        a, b = res[ids[0]], res[o]
        if len(a) != len(b):
            ctx.violation("sibling-field-count", f"MSM{level}: {ids[0]} decodes {len(a)} values after the epoch, "
                          f"{o} decodes {len(b)} from the same bits", params)
            return
        for (n1, x), (n2, y) in zip(a, b):
            if not refmodel.values_equal(x, y):
                ctx.violation("sibling-values-differ", f"MSM{level}: same bits decode to {n1}={x!r} in {ids[0]} but "
                              f"{n2}={y!r} in {o}", params)
                return
    ctx.hit("sibling_checked")
    ctx.hit("family:msm-level")
    ctx.case(f"M|{level}|{val:x}", True)


def splice_bits(val, nbits, cut_from, cut_to):
    """Remove bits [cut_from, cut_to) (MSB-first positions) from an nbits-wide value."""
    hi = val >> (nbits - cut_from)
    lo = val & ((1 << (nbits - cut_to)) - 1)
    return (hi << (nbits - cut_to)) | lo, nbits - (cut_to - cut_from)


def payload_of(val, nbits, identity, rng):
    val = val & ((1 << (nbits - 12)) - 1) | (int(identity[:4]) << (nbits - 12))
    total = ((nbits + 7) // 8) * 8
    return ((val << (total - nbits)) | rng.getrandbits(total - nbits)).to_bytes(total // 8, "big")


def prefix_case(ctx, which, seedtag):
    """Message-level relations: 1005<1006, 1007<1008<1033, 1021<1022 (three fields inserted), 1045/1046 prefix."""
    rng = random.Random(seedtag)
    params = {"kind": "prefix", "which": which, "seedtag": seedtag}
    defs, _ = refmodel.tables()

    def vals(identity, val, nbits):
        return [v for _, v in attrs(parse(payload_of(val, nbits, identity, rng)))][1:]

    try:
        if which == "1005-1006":
            nb, val, _ = stdgeom.generate("1006", rng)
            long_ = vals("1006", val, nb)
            short = vals("1005", val >> 16, nb - 16)
            ok = long_[: len(short)] == short and len(long_) == len(short) + 1
            desc = "1006 = 1005 + antenna height"
        elif which in ("1007-1008", "1008-1033"):
            lo, hi = which.split("-")
            nb, val, chosen = stdgeom.generate(hi, rng, "small")
            cnt = dict((k, v) for k, v in chosen)
            keep = 40 + 8 * cnt["n"] if lo == "1007" else 48 + 8 * (cnt["n"] + cnt["m"])
            long_ = vals(hi, val, nb)
            short = vals(lo, val >> (nb - keep), keep)
            ok = long_[: len(short)] == short
            desc = f"{hi} extends {lo}"
        elif which == "1021-1022":
            nb, val, chosen = stdgeom.generate("1022", rng, "small")
            cnt = dict((k, v) for k, v in chosen)
            at = 22 + 8 * (cnt["n"] + cnt["m"]) + 286
            long_ = vals("1022", val, nb)
            v2, nb2 = splice_bits(val, nb, at, at + 105)
            short = vals("1021", v2, nb2)
            ok = len(long_) == len(short) + 3 and long_[:-9] + long_[-6:] == short
            desc = "1022 = 1021 with XP,YP,ZP inserted after dS"
        else:  # 1045-1046
            nb, val, _ = stdgeom.generate("1046", rng)
            long_ = vals("1046", val, nb)
            v2 = (val >> (nb - 486) << 10) | rng.getrandbits(10)
            short = vals("1045", v2, 496)
            ok = long_[:25] == short[:25] and len(long_) >= 25
            desc = "1045/1046 share the first 486 bits (25 fields after the message number)"
    except Exception as e:
        ctx.violation("sibling-message-rejected", f"{which}: {type(e).__name__}: {str(e)[:200]}", params)
        return
    if not ok:
        i = next((k for k, (a, b) in enumerate(zip(long_, short)) if a != b), None)
        ctx.violation("sibling-values-differ", f"{which} ({desc}): value sequences differ (first differing position {i}: "
                      f"{long_[i] if i is not None else '?'} vs {short[i] if i is not None else '?'}; lengths "
                      f"{len(long_)}/{len(short)})", params)
        return
    ctx.hit("sibling_checked")
    ctx.hit("family:prefix")
    ctx.case(f"X|{which}|{val:x}", True)


PREFIXES = ("1005-1006", "1007-1008", "1008-1033", "1021-1022", "1045-1046")


def install_offset_probe():
    """Optional internal evidence: remember the last offset the real field decoder returned."""
    if not monitors.install_field_monitor():
        return
    orig = monitors.field_ends_within_payload

    def probe(self, anam, offset, result):
        monitors.CURRENT["last_offset"] = result
        return True

    monitors._offset_probe = probe
    try:
        import icontract
        from pyrtcm.rtcmmessage import RTCMMessage

        f = RTCMMessage._set_attribute_single
        if not getattr(f, "_vf_probe", False):
            g = icontract.ensure(probe, error=monitors.ContractBroken)(f)
            g._vf_probe = True
            g._vf_wrapped = True
            RTCMMessage._set_attribute_single = g
    except Exception:
        pass


def run(ctx):
    install_offset_probe()
    rng = ctx.rng
    defs, _ = refmodel.tables()
    T = lambda: rng.getrandbits(48)  # noqa: E731
    ids = sorted(defs)
    pinned = [i for i in ids if i in stdgeom.SPEC]
    unpinned = [i for i in ids if i not in stdgeom.SPEC]
    ctx.note("identities_without_pinned_geometry", unpinned)
    reps = 8 if ctx.quick else 120
    for k, identity in enumerate(pinned):
        if not ctx.mine(k):
            continue
        for cs in ("zero", "one", "max", "small", "random") + (("related",) if identity == "4076_201" else ()):
            for _ in range(reps * 6 if cs == "related" else reps if cs in ("small", "random") else max(1, reps // 4)):
                length_case(ctx, identity, cs, T())
                if cs == "related":
                    ctx.hit("harmonic_layers_with_equal_cosine_counts")
    for k, identity in enumerate(ids):
        if ctx.mine(k + 5):
            integrity_case(ctx, identity, T())
    from vf import stdlayout

    pins = [i for i in sorted(stdlayout.LAYOUT) if i in defs]
    ctx.note("pinned_field_layouts", len(pins))
    for k, identity in enumerate(pins):
        if not ctx.mine(k + 3):
            continue
        msm = refmodel.is_msm_identity(identity)
        for j in range(24 if ctx.quick else 600):
            vs = refmodel.VSTRATS[j % len(refmodel.VSTRATS)]
            cs = ("zero", "one", "small", "max", "random")[j % 5]
            ms = refmodel.MSTRATS[j % len(refmodel.MSTRATS)] if msm else "random"
            pinned_case(ctx, identity, vs, cs, ms, T())
    nfam = len(FAMILIES)
    for j in range(ctx.n(nfam * 100, nfam * 3000)):
        sibling_case(ctx, (j * ctx.nworkers + ctx.worker) % nfam, T())
    for j in range(ctx.n(1200, 40000)):
        nested_bias_case(ctx, T())
        phase_bias_case(ctx, T())
        msm_level_case(ctx, 1 + (j * ctx.nworkers + ctx.worker) % 7, T())
        prefix_case(ctx, PREFIXES[(j * ctx.nworkers + ctx.worker) % len(PREFIXES)], T())


def finalize(tier, counters, notes):
    return {"pinned_identities": len(stdgeom.SPEC),
            "provenance_T": sorted(k for k, v in stdgeom.PROVENANCE.items() if v == "T")}


def replay(ctx, p):
    install_offset_probe()
    k = p["kind"]
    if k == "pinned":
        pinned_case(ctx, p["identity"], p["vstrat"], p["cstrat"], p["mstrat"], p["seedtag"])
    elif k == "length":
        length_case(ctx, p["identity"], p["cstrat"], p["seedtag"])
    elif k == "integrity":
        integrity_case(ctx, p["identity"], p["seedtag"])
    elif k == "sibling":
        sibling_case(ctx, p["family"], p["seedtag"])
    elif k == "nested":
        nested_bias_case(ctx, p["seedtag"])
    elif k == "phase":
        phase_bias_case(ctx, p["seedtag"])
    elif k == "msm":
        msm_level_case(ctx, p["level"], p["seedtag"])
    else:
        prefix_case(ctx, p["which"], p["seedtag"])
