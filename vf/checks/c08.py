"""C08 - CRC-24Q is computed correctly and all guaranteed-detectable damage is rejected.

Oracle: two independent CRC references (cross-checked on every input; a disagreement between them
is a harness error, never a verdict). Damage classes are restricted to what a degree-24 generator
with factor (x+1) and period 2^23-1 is guaranteed to detect.
"""

import itertools

from vf import common, monitors, refcrc, refmodel, streams

LEVEL = "exploration"
RULE = (
    "cases: (1) calc_crc24q(b) vs two references for byte strings of EVERY length 0..1029 (random, all-00, all-FF, "
    "leading zeros, every byte value at first/middle/last position) and calc(b||crc2bytes(b)) == 0; (2) "
    "RTCMReader.parse(damaged frame, validate=1) must raise RTCMParseError for frames of lengths "
    "{6,7,8,9,10,11,12,25,134,261,262,517,1029}: ALL single-bit errors (enumeration), all 2-bit errors for frames <= 12 bytes "
    "and sampled pairs otherwise, odd weights 3..15, bursts of every length 2..24 (every offset in thorough, sampled "
    "in quick), header bytes included; (3) with validate=0 the three CRC bytes do not influence the result. "
    "distinct = blake2b(input, relation); non-trivial = input length >= 4 bytes"
)
RULE += (
    ' Also: syndrome-targeted bursts (GF(2) elimination), nested crafted frames, intact frame parsed'
    ' first, validate values True/3/5, the same bytearray / memoryview damaged in place, validate=0 then'
    ' validate=1 on the same bytes, a non-validating reader then a validating reader over the same bytes,'
    ' validate=0 under headers that do not describe the buffer.'
)
RULE += (
    " Also: byte strings whose intermediate remainder is steered to special values (zero, single bits, 0x010000, all ones) before zero / 0xFF / arbitrary bytes."
)
RULE += (
    " Also: the static parser called with positional arguments in the documented order."
)
ASSUMPTIONS = [
    "GF(2) long-division reference and table-driven reference agree on every input (checked at run time)",
    "frame length << 2^23-1 bits, so every 2-bit error is detectable; (x+1) | G so every odd-weight error is",
]
GATES = ["positional_arguments_checked", "special_intermediate_remainders", "crc_compared", "append_zero_checked", "single_bit_checked", "double_bit_checked", "odd_checked",
         "burst_checked", "validate0_checked", "lengths_enumerated",
         "syndrome_targeted_bursts", "nested_frames", "intact_parsed_first", "flag_values_checked", "validate0_then_1_checked", "inplace_sequences"]

FRAME_LENGTHS = (6, 7, 8, 9, 10, 11, 12, 25, 134, 261, 262, 517, 1029)


def crc_case(ctx, data, label):
    import pyrtcm.rtcmhelpers as H

    r1 = refcrc.crc_ref1(data)
    r2 = refcrc.crc_ref2(data)
    if r1 != r2:
        raise RuntimeError(f"harness: CRC references disagree on {data.hex()}")
    got = H.calc_crc24q(data)
    if len(data) % 5 == 2:
        # the same octets behind a strided (non-contiguous) memoryview: still a sequence of octets
        inter = bytearray(2 * len(data))
        inter[::2] = data
        try:
            g2 = H.calc_crc24q(memoryview(inter)[::2])
        except Exception as e:
            ctx.violation("crc-value", f"calc_crc24q(strided memoryview of {len(data)} octets) raised {type(e).__name__}: {e}",
                          {"kind": "crc", "data": data.hex()})
            return False
        if g2 != got:
            ctx.violation("crc-value", f"calc_crc24q differs between bytes and a strided memoryview of the same octets",
                          {"kind": "crc", "data": data.hex()})
            return False
        ctx.hit("strided_views_checked")
    ctx.hit("crc_compared")
    if got != r1:
        ctx.violation("crc-value", f"calc_crc24q({label}, {len(data)} bytes {data[:12].hex()}..) = {got!r}, "
                      f"CRC-24Q is {r1:#08x}", {"kind": "crc", "data": data.hex()})
        return False
    tail = H.crc2bytes(data)
    z = H.calc_crc24q(data + tail)
    ctx.hit("append_zero_checked")
    if tail != r1.to_bytes(3, "big") or z != 0:
        ctx.violation("crc-append-nonzero", f"crc2bytes={tail!r} calc(msg||crc)={z!r} for {len(data)} bytes",
                      {"kind": "crc", "data": data.hex()})
        return False
    ctx.case(b"crc" + data, len(data) >= 4)
    return True


def damaged_case(ctx, frame, positions, cls):
    from pyrtcm import RTCMReader
    from pyrtcm.exceptions import RTCMParseError

    bad = streams.flip(frame, positions)
    params = {"kind": "damage", "frame": frame.hex(), "positions": list(positions), "cls": cls}
    try:
        RTCMReader.parse(bad, validate=1)
        ctx.violation("damage-accepted", f"{cls} error at bits {list(positions)[:8]} of a {len(frame)}-byte frame "
                      f"was accepted with validation on", params)
        return False
    except RTCMParseError:
        pass
    except Exception as e:
        ctx.violation("damage-wrong-error", f"{cls} error at bits {list(positions)[:8]} of a {len(frame)}-byte frame: "
                      f"{type(e).__name__} instead of RTCMParseError: {str(e)[:100]}", params)
        return False
    if (len(frame) + sum(positions)) % 5 == 1:
        # the documented positional order parse(message, validate, labelmsm)
        for args in ((1,), (1, 2), (True, 1)):
            try:
                RTCMReader.parse(bad, *args)
                ctx.violation("damage-accepted", f"{cls} error at bits {list(positions)[:8]} of a {len(frame)}-byte frame "
                              f"was accepted by RTCMReader.parse(frame, {', '.join(map(repr, args))}) (validation on, "
                              f"arguments given by position)", dict(params, positional=list(map(int, args))))
                return False
            except Exception:
                pass
        ctx.hit("positional_arguments_checked")
    if (len(frame) + sum(positions)) % 8 == 0:
        # second route to the same parser: a non-validating reader sees the damaged bytes first, then a validating
        # reader (raise mode) over the same bytes must still refuse them
        import io

        try:
            list(RTCMReader(io.BytesIO(bad), validate=0, quitonerror=0))
        except Exception:
            pass
        try:
            got = RTCMReader(io.BytesIO(bad), validate=1, quitonerror=2).read()
        except Exception:
            got = None
        if got is not None and got[0] is not None and bytes(got[0]) == bad:
            ctx.violation("damage-accepted", f"{cls} error at bits {list(positions)[:8]} of a {len(frame)}-byte frame: "
                          f"a validating reader returns the damaged frame after a non-validating reader has read the "
                          f"same bytes", params)
            return False
        ctx.hit("reader_route_after_nonvalidating_reader")
    ctx.hit(cls + "_checked")
    ctx.case(bad, True)
    return True


syndrome_burst = streams.syndrome_burst


def intact_ok(ctx, frame):
    """Parse the intact frame with validation on and off (any outcome but a foreign exception is fine here)."""
    from pyrtcm import RTCMReader

    for v in (1, 0, 1):
        try:
            RTCMReader.parse(frame, validate=v)
        except common.lib_errors():
            pass
    ctx.hit("intact_parsed_first")


def flagged_case(ctx, frame, positions, validate):
    """validate values other than 1 that have the checksum bit set (3, 5, True): a damaged frame must
    not be returned as a message (which exception is raised is not pinned for such values)."""
    from pyrtcm import RTCMReader

    bad = streams.flip(frame, positions)
    try:
        RTCMReader.parse(bad, validate=validate)
    except Exception:
        ctx.hit("flag_values_checked")
        return True
    ctx.violation("damage-accepted", f"validate={validate!r} (checksum bit set): damage at bits {list(positions)[:6]} of a "
                  f"{len(frame)}-byte frame was accepted", {"kind": "flagged", "frame": frame.hex(),
                                                            "positions": list(positions), "validate": int(validate)})
    return False


def validate0_case(ctx, frame, newcrc):
    from pyrtcm import RTCMReader

    libs = common.lib_errors()
    alt = frame[:-3] + newcrc
    params = {"kind": "validate0", "frame": frame.hex(), "newcrc": newcrc.hex()}

    def outcome(buf):
        try:
            if frame[-2] & 1:
                try:
                    m = RTCMReader.parse(buf, 0, 2 - (frame[-1] & 1))  # documented positional order
                except TypeError:  # (a keyword-only signature is no checksum matter)
                    m = RTCMReader.parse(buf, validate=0, labelmsm=2 - (frame[-1] & 1))
            else:
                m = RTCMReader.parse(buf, validate=0)
            return ("ok", m.identity, m.payload, refmodel.public_attrs(m), m.serialize(), str(m), repr(m))
        except libs as e:
            return ("err", type(e).__name__)

    try:
        a = outcome(frame)
        b = outcome(alt)
    except Exception as e:
        ctx.violation("validate0-foreign", f"{type(e).__name__}: {e}", params)
        return
    ctx.hit("validate0_checked")
    # the same altered buffer parsed again WITH validation must be rejected (a result remembered from the
    # unvalidated parse must not be reused)
    if refcrc.crc_ref2(alt) != 0:
        from pyrtcm.exceptions import RTCMParseError

        try:
            RTCMReader.parse(alt, validate=1)
            ctx.violation("damage-accepted", "a wrong-checksum frame first parsed with validate=0 is accepted by a "
                          "following parse with validate=1", params)
            return
        except RTCMParseError:
            ctx.hit("validate0_then_1_checked")
        except Exception as e:
            ctx.violation("damage-wrong-error", f"validate=0 then validate=1: {type(e).__name__}: {e}", params)
            return
    if a != b:
        ctx.violation("validate0-crc-influence", f"validate=0: result depends on CRC bytes {frame[-3:].hex()} vs "
                      f"{newcrc.hex()}: {a[0:2]} vs {b[0:2]}", params)
        return
    # the same with a header that does not describe the buffer (length field over- / understated, reserved bits set):
    # whatever the parser makes of such a buffer with validation off, the checksum bytes must not change it
    ln = len(frame) - 6
    k = (frame[-1] + ln) % 5
    newlen = (ln + 1, ln + 3, max(0, ln - 2), ln | 0x400, ln)[k]
    hdr = bytes([0xD3 if k != 4 else 0xD2, (newlen >> 8) & 0xFF, newlen & 0xFF])
    try:
        a2 = outcome(hdr + frame[3:])
        b2 = outcome(hdr + alt[3:])
    except Exception as e:
        ctx.violation("validate0-foreign", f"header {hdr.hex()}: {type(e).__name__}: {e}", dict(params, hdr=hdr.hex()))
        return
    ctx.hit("validate0_odd_header_checked")
    if a2 != b2:
        ctx.violation("validate0-crc-influence", f"validate=0, header {hdr.hex()} on a {ln}-byte payload: result depends "
                      f"on the CRC bytes {frame[-3:].hex()} vs {newcrc.hex()}: {a2[0:2]} vs {b2[0:2]}", params)
        return
    ctx.case(alt + b"v0", True)


def make_frame(rng, total_len):
    ln = total_len - 6
    if ln < 2:
        p = bytes(rng.getrandbits(8) for _ in range(ln))
    elif rng.random() < 0.5:
        p = streams.rand_unknown_payload(rng, ln)
    else:
        p = streams.rand_defined_payload(rng, cstrat="small")
        p = streams.pad_payload(p, ln, rng) if len(p) <= ln else streams.rand_unknown_payload(rng, ln)
    return refcrc.frame(p)


def run(ctx):
    monitors.install_crc_monitor()
    rng = ctx.rng
    # (1) every length 0..1029
    for ln in range(0, 1030):
        if not ctx.mine(ln):
            continue
        pats = [bytes(rng.getrandbits(8) for _ in range(ln)), b"\x00" * ln, b"\xff" * ln]
        if ln:
            pats.append(b"\x00" * (ln // 2) + bytes(rng.getrandbits(8) for _ in range(ln - ln // 2)))
            pats.append(bytes(rng.getrandbits(8) for _ in range(ln - 1)) + b"\x00")
        if not ctx.quick:
            pats += [bytes(rng.getrandbits(8) for _ in range(ln)) for _ in range(6)]
        if 6 <= ln:
            # byte strings that are themselves complete, valid frames (remainder zero, consistent header) and
            # near misses of them: the helpers are defined for EVERY byte string
            fr = make_frame(rng, ln)
            pats += [fr, fr[:-1], fr + b"\x00", b"\x00" + fr, refcrc.frame(fr[: min(len(fr), 1023)])[: ln]]
        for p in pats:
            if not crc_case(ctx, p, "pattern"):
                return
        ctx.hit("lengths_enumerated")
    # byte strings whose INTERMEDIATE remainder is special (zero, one bit set, only the top / middle / low byte set,
    # all ones ...) right before zero bytes, 0xFF bytes or arbitrary bytes follow
    specials = [0, 0xFFFFFF, 0x7FFFFF, 0x00FFFF, 0x0000FF, 0xFF0000, 0x00FF00, 0xFFFF00] + [1 << b for b in range(24)] \
        + [(1 << b) - 1 for b in (8, 9, 15, 16, 17, 23)] + [0x010001, 0x010100, 0x018000, 0x00FFFE, 0x010002]
    for k, sp in enumerate(specials):
        if not ctx.mine(k):
            continue
        for rep in range(6 if ctx.quick else 60):
            head = streams.steer_raw(bytes(rng.getrandbits(8) for _ in range(rng.choice((0, 1, 2, 5, 30)))), sp)
            for tail in (b"", b"\x00", b"\x00\x00", b"\x00" * 3, b"\x00" * 7, b"\xff", b"\x00\xff", b"\x01", b"\x80",
                         b"\x00" + bytes(rng.getrandbits(8) for _ in range(4)),
                         bytes(rng.getrandbits(8) for _ in range(rng.randint(1, 9)))):
                if not crc_case(ctx, head + tail, "steered-state"):
                    return
        ctx.hit("special_intermediate_remainders")
    # every byte value at first / middle / last position
    for v in range(256):
        if not ctx.mine(v):
            continue
        for ln in (1, 2, 3, 4, 7, 64):
            for pos in {0, ln // 2, ln - 1}:
                b = bytearray(ln)
                b[pos] = v
                if not crc_case(ctx, bytes(b), "single-byte"):
                    return
    # (2) damage
    work = []
    for L in FRAME_LENGTHS:
        for rep in range(1 if ctx.quick else 3):
            work.append((L, rep))
    import random

    frng = random.Random(ctx.seed * 7 + 12345)  # same frames in every worker: enumerations are partitioned
    for idx, (L, rep) in enumerate(work):
        fr = make_frame(frng, L)
        nb = L * 8
        intact_ok(ctx, fr)  # the intact frame is parsed first: later damaged copies must still be rejected
        # all single-bit errors, partitioned between workers
        for b in range(nb):
            if (b + idx) % ctx.nworkers == ctx.worker:
                if not damaged_case(ctx, fr, (b,), "single_bit"):
                    return
        if ctx.worker == 0:
            ctx.hit("single_bit_exhaustive_frames")
        # double-bit
        if L <= 12:
            for k, (a, b) in enumerate(itertools.combinations(range(nb), 2)):
                if k % ctx.nworkers == ctx.worker:
                    if not damaged_case(ctx, fr, (a, b), "double_bit"):
                        return
            if ctx.worker == 0:
                ctx.hit("double_bit_exhaustive_frames")
        else:
            for _ in range(ctx.n(12000, 80000)):
                a, b = rng.sample(range(nb), 2)
                if not damaged_case(ctx, fr, (a, b), "double_bit"):
                    return
        # odd weights
        for _ in range(ctx.n(8000, 60000)):
            k = rng.choice((3, 5, 7, 9, 11, 13, 15))
            k = min(k, nb if nb % 2 else nb - 1)
            if not damaged_case(ctx, fr, tuple(sorted(rng.sample(range(nb), k))), "odd"):
                return
        # bursts
        if ctx.quick:
            for _ in range(ctx.n(8000, 0)):
                blen = rng.randint(2, 24)
                st = rng.randrange(0, nb - blen + 1)
                pos = {st, st + blen - 1} | {i for i in range(st + 1, st + blen - 1) if rng.random() < 0.5}
                if not damaged_case(ctx, fr, tuple(sorted(pos)), "burst"):
                    return
        else:
            k = 0
            for blen in range(2, 25):
                for st in range(0, nb - blen + 1):
                    k += 1
                    if k % ctx.nworkers != ctx.worker:
                        continue
                    pos = {st, st + blen - 1} | {i for i in range(st + 1, st + blen - 1) if rng.random() < 0.5}
                    if not damaged_case(ctx, fr, tuple(sorted(pos)), "burst"):
                        return
            if ctx.worker == 0:
                ctx.hit("burst_every_offset_frames")
        # syndrome-targeted bursts: for windows at both ends and at random offsets, the burst whose
        # residue is each single bit / a low-weight pattern
        windows = [0, nb - 24, max(0, nb - 48)] + [rng.randrange(0, nb - 23) for _ in range(3 if ctx.quick else 40)]
        targets = [1 << i for i in range(24)] + [0xF, 0xFF, 0xFFFFFF, 0x800001, 3, 5]
        for wi, k in enumerate(windows):
            for ti, t in enumerate(targets):
                if (wi * len(targets) + ti) % ctx.nworkers != ctx.worker:
                    continue
                pos = syndrome_burst(L, k, t)
                if pos:
                    if refcrc.crc_ref2(streams.flip(fr, pos)) != t:
                        raise RuntimeError("harness: syndrome construction wrong")
                    ctx.hit("syndrome_targeted_bursts")
                    if not damaged_case(ctx, fr, pos, "burst"):
                        return
        for v in (True, 3, 5):
            for _ in range(4):
                if not flagged_case(ctx, fr, (rng.randrange(nb),), v):
                    return
        # (3) validate=0
        for _ in range(6 if ctx.quick else 60):
            newcrc = bytes(rng.getrandbits(8) for _ in range(3))
            validate0_case(ctx, fr, newcrc)
        validate0_case(ctx, fr, b"\x00\x00\x00")
        validate0_case(ctx, fr, b"\xff\xff\xff")
    # crafted "nested" frames: the payload carries, at the offset a SHORTER length field would point to,
    # the CRC of the frame shortened to that length; flipping that one length bit (a guaranteed-detectable
    # single-bit error) yields "valid shorter frame + trailing bytes", which must still be rejected
    for it in range(ctx.n(1200, 8000)):
        L = rng.choice((19, 83, 130, 255, 256, 300, 511, 512, 700, 1023, rng.randint(8, 1023)))
        bits = [b for b in range(10) if (L >> b) & 1 and (L ^ (1 << b)) >= 2 and (L ^ (1 << b)) + 3 <= L]
        if not bits:
            continue
        b = rng.choice(bits)
        Ls = L ^ (1 << b)
        pay = bytearray(streams.rand_unknown_payload(rng, L))
        inner = b"\xd3" + bytes([Ls >> 8, Ls & 0xFF]) + bytes(pay[:Ls])
        pay[Ls:Ls + 3] = refcrc.crc_ref2(inner).to_bytes(3, "big")
        fr = refcrc.frame(bytes(pay))
        if refcrc.wellformed(fr) is not None:
            raise RuntimeError("harness: nested frame not valid")
        ctx.hit("nested_frames")
        if not damaged_case(ctx, fr, (23 - b,), "single_bit"):
            return
        # and a second length bit as a 2-bit error where another nested CRC is NOT present (must reject anyway)
        others = [x for x in range(10) if x != b]
        if not damaged_case(ctx, fr, tuple(sorted((23 - b, 23 - rng.choice(others)))), "double_bit"):
            return
    # the same MUTABLE buffer checked, modified in place, and checked again (a result remembered for an
    # object must not outlive a change of its content)
    import pyrtcm.rtcmhelpers as H
    from pyrtcm import RTCMReader
    from pyrtcm.exceptions import RTCMParseError

    for it in range(ctx.n(200, 6000)):
        fr = bytearray(make_frame(rng, rng.choice((8, 12, 25, 60, 134))))
        view = memoryview(fr) if it % 3 == 0 else fr
        ok = True
        for step in range(4):
            want = refcrc.crc_ref2(bytes(fr))
            got = H.calc_crc24q(view)
            if got != want:
                ctx.violation("crc-value", f"calc_crc24q on a bytearray modified in place (step {step}) = {got:#x}, "
                              f"CRC-24Q of its current content is {want:#x}", {"kind": "inplace", "frame": bytes(fr).hex()})
                return
            if want != 0:
                try:
                    RTCMReader.parse(fr, validate=1)
                    ctx.violation("damage-accepted", f"a frame damaged IN PLACE (same buffer object, step {step}) is "
                                  f"accepted with validation on", {"kind": "inplace", "frame": bytes(fr).hex()})
                    return
                except RTCMParseError:
                    pass
                except Exception as e:
                    ctx.violation("damage-wrong-error", f"in-place damaged buffer: {type(e).__name__}: {e}",
                                  {"kind": "inplace", "frame": bytes(fr).hex()})
                    return
            b = rng.randrange(len(fr) * 8)
            fr[b >> 3] ^= 0x80 >> (b & 7)
        ctx.hit("inplace_sequences")
    ctx.sample({"frame_lengths": list(FRAME_LENGTHS), "classes": ["single_bit(all)", "double_bit", "odd", "burst<=24"],
                "example_frame_hex": make_frame(rng, 25).hex()})
    for k, v in monitors.EVAL.items():
        ctx.hit("contract_eval:" + k, v)
    if monitors.RECORDED:
        ctx.hit("internal_recorded", len(monitors.RECORDED))


def replay(ctx, p):
    monitors.install_crc_monitor()
    if p["kind"] == "crc":
        crc_case(ctx, bytes.fromhex(p["data"]), "replay")
    elif p["kind"] == "flagged":
        flagged_case(ctx, bytes.fromhex(p["frame"]), tuple(p["positions"]), p["validate"])
    elif p["kind"] == "damage":
        damaged_case(ctx, bytes.fromhex(p["frame"]), tuple(p["positions"]), p["cls"])
    else:
        validate0_case(ctx, bytes.fromhex(p["frame"]), bytes.fromhex(p["newcrc"]))
