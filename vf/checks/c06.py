"""C06 - Fields are never read past the end of the payload.

Boundary monitor: RTCMMessage(payload=truncated) must raise for (1) every whole-byte truncation of
minimal-length reference messages, (2) messages whose counters/masks were raised without adding
data, (3) arbitrary bodies under defined headers - whenever an independent reference DECODER
(vf.refmodel.decode) finds that the announced fields need more bits than supplied.
Internal (optional) icontract post-condition on the real field decoder: end offset <= payload bits.
"""

import random

from vf import bits as B
from vf import monitors, refmodel, streams

LEVEL = "exploration"
RULE = (
    "case = (identity, payload shorter than what it announces): (1) reference message at minimal length "
    "(ceil(bits/8) bytes) for counts {0,1,max,small,random} x EVERY truncation length down to the identity header "
    "(enumeration of cut positions); (2) one counter / mask / condition flag raised in place without adding data; "
    "(3) random bodies under every defined header. The reference decoder decides 'short' independently. "
    "distinct = blake2b(payload); non-trivial = the truncated payload still contains the identity and the reference "
    "decoder needs at least one more bit than supplied"
)
RULE += (
    ' Also: the same sweeps with the PINNED layouts (vf.stdlayout) as encoder and decoder (an oracle that'
    ' does not follow a changed table entry); short payloads also as bytearray / memoryview incl. views'
    ' INTO a longer buffer; the same rule through RTCMReader.parse with correct framing and with a length'
    ' field that still announces the original size.'
)
RULE += (
    " Also: the short payload offered to one non-validating stream reader behind the complete frame, framed with the complete frame's checksum bytes."
)
ASSUMPTIONS = [
    "shorter inputs than the identity header fall under C04",
    "4076_201 bodies with harmonic order M > N are skipped (layout undefined by the standard)",
]
GATES = ["short_repeat_behind_complete_frame", "cuts_checked", "bumped_checked", "garbage_short_checked", "cut:inside-field", "cut:at-field-end",
         "cut:inside-counter-or-mask", "framed_rejected"]


def parse(payload):
    from pyrtcm import RTCMMessage

    return RTCMMessage(payload=payload)


def rep_of(payload):
    """Second representation under which the same short payload is offered (decided by the bytes: replayable)."""
    import zlib

    return ("bytes", "bytes", "bytes", "bytearray", "sub", "mview", "mslice", "mprefix")[zlib.crc32(payload) % 8]


def must_reject_framed(ctx, identity, payload, why, params, full_len, full=None):
    """The same rule through the static frame parser: correct framing of the short payload, and framing whose
    length field still announces the ORIGINAL size (trailer valid for the bytes present)."""
    from pyrtcm import RTCMReader

    from vf import refcrc

    frames = [("framed", refcrc.frame(payload))]
    if full_len is not None and full_len <= 1023 and full_len != len(payload):
        body = b"\xd3" + bytes([full_len >> 8, full_len & 0xFF]) + payload
        frames.append(("length-field-announces-more", body + refcrc.crc_ref2(body).to_bytes(3, "big")))
    for label, fr in frames:
        for v in (1, 0):
            try:
                msg = RTCMReader.parse(fr, validate=v)
            except Exception:
                ctx.hit("framed_rejected")
                continue
            attrs = [k for k in msg.__dict__ if not k.startswith("_")]
            ctx.violation("short-payload-accepted",
                          f"{identity}: RTCMReader.parse({label}, validate={v}) accepted a payload of {len(payload)} bytes "
                          f"although {why}; returned {len(attrs)} attributes (last: {attrs[-3:]})",
                          dict(params, framed=label, validate=v))
            return False
    if full is not None and len(full) <= 1023 and len(payload) >= 2:
        # one stream reader, checksum validation off: the complete frame, then the short payload framed with the SAME
        # checksum bytes (a repeat that lost its tail) - nothing may be returned as a message for the second frame
        import io

        f1 = refcrc.frame(full)
        t = b"\xd3" + bytes([len(payload) >> 8, len(payload) & 0xFF]) + payload + f1[-3:]
        try:
            got = [(bytes(r), m) for r, m in RTCMReader(io.BytesIO(f1 + t), validate=0, quitonerror=0)]
        except Exception:
            got = []
        ctx.hit("short_repeat_behind_complete_frame")
        for r, m in got:
            if r == t and m is not None:
                ctx.violation("short-payload-accepted",
                              f"{identity}: a stream reader (validate=0) returned a message for a frame whose payload of "
                              f"{len(payload)} bytes is short ({why}), read behind the complete frame with the same "
                              f"checksum bytes", dict(params, framed="reader-behind-complete"))
                return False
    return True


def must_reject(ctx, identity, payload, why, params):
    libs = None
    monitors.CURRENT["identity"] = identity
    del monitors.RECORDED[:]
    try:
        msg = parse(payload)
    except Exception:
        if monitors.RECORDED:
            # internal monitor only: the message was rejected, so nothing is observable at the
            # boundary; counted as evidence, never a verdict
            ctx.hit("internal:field-past-end-then-rejected")
        rep = rep_of(payload)
        if rep == "bytes":
            return True
        # the same short payload as a bytearray / memoryview (also as a view INTO a longer buffer: what lies beyond
        # the view is not payload)
        ctx.hit("rep:" + rep)
        try:
            msg = parse(streams.as_rep(rep, payload))
        except Exception:
            return True
        why = why + f" (payload handed over as {rep})"
    attrs = [k for k in msg.__dict__ if not k.startswith("_")]
    ctx.violation("short-payload-accepted",
                  f"{identity}: payload of {len(payload)} bytes accepted although {why}; returned {len(attrs)} "
                  f"attributes (last: {attrs[-3:]})", params)
    return False


def hdrlen(identity):
    return 3 if identity.startswith("4076") else 2


def sweep(ctx, identity, vs, cs, ms, seedtag, pinned=False, word=None):
    """pinned: the reference encoder / decoder walk the PINNED field layouts (vf.stdlayout: widths, signedness,
    counts as the standards give them) instead of the repository's own tables read as data - a table entry that
    was changed (say, a repeat count made signed) then no longer drags the oracle along."""
    rng = random.Random(seedtag)
    tabs = None
    if pinned:
        from vf import stdlayout

        if identity not in stdlayout.LAYOUT:
            return
        tabs = (stdlayout.LAYOUT, stdlayout.F)
        ctx.hit("sweeps_with_pinned_layout")
    enc = refmodel.build(identity, rng, vs, cs, ms, tabs=tabs, force=({"__word__": word} if word else None))
    full = enc.payload
    base = {"kind": "cut", "identity": identity, "vstrat": vs, "cstrat": cs, "mstrat": ms, "seedtag": seedtag,
            "pinned": pinned, "word": word}
    if word:
        ctx.hit("sweeps_with_real_world_text")
    # sanity: the full message parses (else this is C03's problem, not ours)
    try:
        parse(full)
    except Exception:
        ctx.hit("full_message_rejected(C03-matter)")
        return
    starts = {}
    for f in enc.fields:
        if f["width"]:
            for b in range(f["start"], f["start"] + f["width"]):
                pass
    ends = {f["start"] + f["width"]: f for f in enc.fields if f["width"]}
    cuts = range(len(full) - 1, hdrlen(identity) - 1, -1)
    if ctx.quick and len(full) > 80:
        # all cuts near both ends + a sample in the middle
        near = set(range(len(full) - 1, len(full) - 25, -1)) | set(range(hdrlen(identity), hdrlen(identity) + 16))
        mid = set(rng.sample(range(hdrlen(identity), len(full)), 30))
        cuts = sorted((near | mid) & set(range(hdrlen(identity), len(full))), reverse=True)
    for ln in cuts:
        cutbit = ln * 8
        p = full[:ln]
        try:
            refmodel.decode(identity, p, tabs=tabs)
            ctx.hit("ref_says_complete(harness?)")
            continue
        except refmodel.Short as s:
            if getattr(s, "m_gt_n", False):
                ctx.hit("skipped_m_gt_n")
                continue
            why = str(s)
        except refmodel.DefinitionError:
            return
        ok = must_reject(ctx, identity, p, why, dict(base, cutlen=ln))
        if ok and ln % 9 == 4:
            # one receive buffer used twice: the complete message is parsed from it, the buffer is shortened IN PLACE, and
            # the same object is offered again
            buf = bytearray(full)
            try:
                parse(buf)
                del buf[ln:]
                msg2 = parse(buf)
            except Exception:
                msg2 = None
            if msg2 is not None:
                ctx.violation("short-payload-accepted", f"{identity}: a bytearray shortened in place to {ln} bytes after a "
                              f"first parse of its {len(full)} bytes is accepted although {why}", dict(base, cutlen=ln))
                return
            ctx.hit("buffers_shortened_in_place")
        if ok and (ln % 3 == 0 or ln >= len(full) - 4):
            ok = must_reject_framed(ctx, identity, p, why, dict(base, cutlen=ln), len(full), full)
        ctx.hit("cuts_checked")
        if not ok:
            return
        # classify the cut position relative to the field layout
        f_in = next((f for f in enc.fields if f["width"] and f["start"] < cutbit < f["start"] + f["width"]), None)
        if f_in is not None:
            ctx.hit("cut:inside-field")
            if f_in["role"] in ("counter", "mask", "cond"):
                ctx.hit("cut:inside-counter-or-mask")
        elif cutbit in ends:
            ctx.hit("cut:at-field-end")
        else:
            ctx.hit("cut:other")
        ctx.case(p, True)
    ctx.hit("sweeps")
    if len(full) > 200:
        ctx.hit("sweeps_over_200_bytes")
    # (2) raise counters / masks in place
    for f in enc.fields:
        if f["role"] not in ("counter", "mask", "cond") or not f["width"]:
            continue
        for new in {(1 << f["width"]) - 1, min(f["raw"] + 1, (1 << f["width"]) - 1), f["raw"] | 1}:
            if new == f["raw"]:
                continue
            p = B.set_bits(full, f["start"], f["width"], new)
            try:
                d = refmodel.decode(identity, p, tabs=tabs)
                ctx.hit("bumped_but_complete")
                continue
            except refmodel.Short as s:
                if getattr(s, "m_gt_n", False):
                    ctx.hit("skipped_m_gt_n")
                    continue
                why = str(s)
            ok = must_reject(ctx, identity, p, why, dict(base, bump=[f["name"], new]))
            ctx.hit("bumped_checked")
            if not ok:
                return
            ctx.case(p, True)


def garbage(ctx, identity, rng):
    ln = rng.choice((3, 4, 6, 9, 14, 25, 40, 80, 160, 400))
    hdr = streams.header_bytes(4076, int(identity[5:])) if identity.startswith("4076") else streams.header_bytes(
        int(identity))
    body = bytearray(rng.getrandbits(8) for _ in range(max(ln, len(hdr))))
    style = rng.random()
    if style < 0.3:
        body = bytearray(b"\xff" * len(body))
    body[: len(hdr) - 1] = hdr[:-1]
    keep = 0x0F if len(hdr) == 2 else 0x01
    body[len(hdr) - 1] = hdr[-1] | (body[len(hdr) - 1] & keep)
    p = bytes(body)
    try:
        d = refmodel.decode(identity, p)
        ctx.hit("garbage_complete")
        return
    except refmodel.Short as s:
        if getattr(s, "m_gt_n", False):
            ctx.hit("skipped_m_gt_n")
            return
        why = str(s)
    except refmodel.DefinitionError:
        return
    if must_reject(ctx, identity, p, why, {"kind": "garbage", "identity": identity, "payload": p.hex()}):
        ctx.hit("garbage_short_checked")
        ctx.case(p, True)


def run(ctx):
    installed = monitors.install_field_monitor()
    ctx.note("field_contract_installed", installed)
    rng = ctx.rng
    ids = [i for i in refmodel.identities() if refmodel.reachable(i)]
    reps = 2 if ctx.quick else 30
    sampled = False
    for k, identity in enumerate(ids):
        if not ctx.mine(k):
            continue
        msm = refmodel.is_msm_identity(identity)
        for cs in ("zero", "one", "max", "small", "random"):
            for r in range(reps if cs in ("small", "random") else max(1, reps // 3)):
                vs = rng.choice(refmodel.VSTRATS)
                ms = rng.choice(refmodel.MSTRATS) if msm else "random"
                try:
                    sweep(ctx, identity, vs, cs, ms, rng.getrandbits(48))
                    if r == 0:
                        sweep(ctx, identity, vs, cs, ms, rng.getrandbits(48), pinned=True)
                except refmodel.DefinitionError:
                    break
        # string-bearing types: the text groups spell real-world names (antenna / receiver descriptors, CRS names ...)
        try:
            probe = refmodel.build(identity, random.Random(1), "random", "small", "random")
            has_text = any(f["typ"] in ("STR", "CHA") for f in probe.fields) or identity in ("1007", "1008", "1033", "1029")
        except refmodel.DefinitionError:
            has_text = False
        if has_text:
            words = list(refmodel.VOCAB) if not ctx.quick else [w_ for j_, w_ in enumerate(refmodel.VOCAB)
                                                                if j_ % 2 == ctx.seed % 2 or w_[:3] in ("ADV", "ETR", "ITR")]
            for w_ in words:
                try:
                    sweep(ctx, identity, "random", "random", "random", rng.getrandbits(48), word=w_)
                except refmodel.DefinitionError:
                    break
        for _ in range(40 if ctx.quick else 1500):
            garbage(ctx, identity, rng)
        if not sampled:
            sampled = True
            ctx.sample({"identity": identity, "relation": "every whole-byte truncation of a minimal-length message "
                        "must raise", "example_counts": "zero/one/max/small/random"})
    for k, v in monitors.EVAL.items():
        ctx.hit("contract_eval:" + k, v)


def replay(ctx, p):
    monitors.install_field_monitor()
    if p["kind"] == "garbage":
        pl = bytes.fromhex(p["payload"])
        try:
            refmodel.decode(p["identity"], pl)
            print("reference decoder: complete")
        except refmodel.Short as s:
            must_reject(ctx, p["identity"], pl, str(s), p)
        return
    sweep(ctx, p["identity"], p["vstrat"], p["cstrat"], p["mstrat"], p["seedtag"], p.get("pinned", False),
          p.get("word"))
