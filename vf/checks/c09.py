"""C09 - MSM masks map to the right satellites, signals and cells.

Reference mask decoder + PINNED PRN / RINEX tables (vf.refmsm, nothing imported from the repo)
compared with the attributes of the really parsed MSM message.
"""

import random

from vf import bits as B
from vf import refmodel, refmsm, streams

LEVEL = "exploration"
RULE = (
    "case = (MSM type out of the 49, satellite mask, signal mask, cell mask, label option in {1,2}); mask shapes: "
    "empty; EACH of the 64 satellite bits alone; EACH of the 32 signal bits alone (covers every reserved ID); pairs; "
    "dense masks up to 64 cells; random masks with NSat x NSig <= 64 incl. empty/full cell masks. Checked: NSat/NSig/"
    "NCell = popcounts, PRN_i = pinned PRN of the i-th set satellite bit, CELLPRN_k/CELLSIG_k = (sat, signal) of the "
    "k-th set cell bit satellite-major, RINEX codes from the pinned table, N/A for undefined IDs. "
    "distinct = blake2b(identity, masks, option); non-trivial = at least one satellite and one signal bit set"
)
RULE += (
    ' Also: the same masks in every constellation back to back and transposed shapes with the same'
    ' cell-mask value; payloads as bytearray / subclass / memoryview.'
)
RULE += (
    " Also: one message in eight read through a stream reader behind a twin whose satellite mask differs by the generator polynomial; mask attributes compared with the payload's; mask pairs that read the same in decimal."
)
ASSUMPTIONS = [
    "pinned tables: RTCM 10403.3 (2016); IDs defined only by later amendments (BeiDou 38-63 / B1C,B2a,B2b signals, "
    "NavIC 8-14 / S-band, GLONASS CDMA) are accepted either as the amendment's code or as N/A",
    "PRN labels are compared by numeric value (format such as zero padding is not part of the property)",
    "frequency-band labels (option 2) are not pinned: only N/A for undefined IDs is required there",
]
GATES = ["read_behind_mask_twin", "messages_checked", "sat_bit_alone", "sig_bit_alone", "reserved_sig_checked", "reserved_sat_checked",
         "opt1", "opt2", "cells64", "same_masks_across_constellations"]


def behind_twin(ctx, payload, satmask, opt):
    """The message as ONE stream reader returns it when the frame follows a different valid frame of the same length
    with the same checksum bytes: the generator polynomial xor-ed into the SATELLITE MASK (no more satellites than
    before, so the twin decodes on its own)."""
    import io

    from pyrtcm import RTCMReader

    from vf import refcrc

    fr = refcrc.frame(payload)
    low = len(payload) * 8 - 137  # distance of the satellite mask's lowest bit from the end of the payload
    pc = bin(satmask).count("1")
    best = None
    for sh in range(0, 64 - 25 + 1):
        n = bin(satmask ^ (refcrc.POLY << sh)).count("1")
        if n <= pc and (best is None or n > best[0]):
            best = (n, sh)
    data = fr
    if best is not None and low >= 0:
        v = int.from_bytes(fr[:-3], "big") ^ (refcrc.POLY << (low + best[1]))
        twin = v.to_bytes(len(fr) - 3, "big") + fr[-3:]
        if refcrc.wellformed(twin) is None:
            data = twin + fr
            ctx.hit("read_behind_mask_twin" + ("_same_nsat" if best[0] == pc else ""))
    out = [m for raw, m in RTCMReader(io.BytesIO(data), labelmsm=opt, quitonerror=0) if bytes(raw) == fr]
    if not out or out[-1] is None:
        raise RuntimeError("the stream reader returned no message for the valid frame")
    return out[-1]


def check(ctx, identity, satmask, sigmask, cellmask, opt, seedtag):
    from pyrtcm import RTCMMessage

    rng = random.Random(seedtag)
    prefix = identity[:3]
    params = {"identity": identity, "satmask": satmask, "sigmask": sigmask, "cellmask": cellmask, "opt": opt,
              "seedtag": seedtag}
    enc = refmodel.build(identity, rng, "random", "small", "random",
                         force={"DF394": satmask, "DF395": sigmask, "DF396": cellmask}, maxcells=4096)
    sats, sigs, cells = refmsm.scan_masks(satmask, sigmask, enc.meta["cellmask"])
    rep = streams.pick_rep(rng, 0.7)  # the same payload as bytes / bytearray / subclass / memoryview
    ctx.hit("rep:" + rep)
    try:
        if len(enc.payload) <= 1023 and seedtag % 8 == 3:
            m = behind_twin(ctx, enc.payload, satmask, opt)
        else:
            m = RTCMMessage(payload=streams.as_rep(rep, enc.payload), labelmsm=opt)
    except Exception as e:
        ctx.violation("msm-parse-raised", f"{identity} sats={sats[:6]}.. sigs={sigs} opt={opt} (payload as {rep}): "
                      f"{type(e).__name__}: {str(e)[:160]}", params)
        return
    ctx.hit("messages_checked")
    ctx.hit(f"opt{opt}")
    g = m.__dict__
    for name, want in (("DF394", satmask), ("DF395", sigmask), ("DF396", enc.meta["cellmask"])):
        if g.get(name) != want:
            ctx.violation("count-mismatch", f"{identity}: the message reports {name}={g.get(name)!r}, the payload carries "
                          f"{want:#x}: counts and labels belong to another mask", params)
            return
    for name, want in (("NSat", len(sats)), ("NSig", len(sigs)), ("NCell", len(cells))):
        if g.get(name) != want:
            ctx.violation("count-mismatch", f"{identity}: {name}={g.get(name)!r}, mask popcount is {want}", params)
            return
    nprn = sum(1 for k in g if k.startswith("PRN_"))
    ncp = sum(1 for k in g if k.startswith("CELLPRN_"))
    ncs = sum(1 for k in g if k.startswith("CELLSIG_"))
    if (nprn, ncp, ncs) != (len(sats), len(cells), len(cells)):
        ctx.violation("label-count", f"{identity}: {nprn} PRN / {ncp} CELLPRN / {ncs} CELLSIG labels for "
                      f"{len(sats)} satellites and {len(cells)} cells", params)
        return
    for i, sid in enumerate(sats, 1):
        lab = g.get(f"PRN_{i:02d}")
        if not refmsm.prn_ok(prefix, sid, lab):
            ctx.violation("prn-label", f"{identity}: PRN_{i:02d}={lab!r} for satellite ID {sid} "
                          f"({refmsm.CONSTELLATION[prefix]})", params)
            return
        if sid not in refmsm.PRN_STRICT[prefix] and sid not in refmsm.PRN_OPTIONAL.get(prefix, {}):
            ctx.hit("reserved_sat_checked")
        ctx.cov.add(("sat", prefix, sid))
    for k, (sid, gid) in enumerate(cells, 1):
        cp = g.get(f"CELLPRN_{k:02d}")
        cs = g.get(f"CELLSIG_{k:02d}")
        if not refmsm.prn_ok(prefix, sid, cp):
            ctx.violation("cell-prn-label", f"{identity}: CELLPRN_{k:02d}={cp!r}, k-th set cell is satellite ID {sid}",
                          params)
            return
        status = refmsm.sig_defined(prefix, gid)
        if opt == 1:
            if not refmsm.sig_ok(prefix, gid, cs):
                ctx.violation("cell-sig-label", f"{identity}: CELLSIG_{k:02d}={cs!r} for signal ID {gid} "
                              f"({refmsm.CONSTELLATION[prefix]}, {status}); RINEX code is "
                              f"{refmsm.SIG_STRICT[prefix].get(gid, refmsm.NA)!r}", params)
                return
        else:
            if status == "undefined" and cs != refmsm.NA:
                ctx.violation("cell-sig-label", f"{identity}: CELLSIG_{k:02d}={cs!r} for UNDEFINED signal ID {gid} "
                              f"under the band option; expected {refmsm.NA!r}", params)
                return
            if status == "strict" and (not isinstance(cs, str) or cs == refmsm.NA or not cs):
                ctx.violation("cell-sig-label", f"{identity}: CELLSIG_{k:02d}={cs!r} for defined signal ID {gid} "
                              f"under the band option", params)
                return
        if status == "undefined":
            ctx.hit("reserved_sig_checked")
        ctx.cov.add(("sig", prefix, gid))
    if len(cells) == 64:
        ctx.hit("cells64")
    if len(sats) * len(sigs) > 64:
        ctx.hit("maskwidth_over_64")
    ctx.case(f"{identity}|{satmask:x}|{sigmask:x}|{enc.meta['cellmask']:x}|{opt}", bool(sats) and bool(sigs))
    if len(cells) > 2:
        ctx.sample({"identity": identity, "opt": opt, "sat_ids": sats[:8], "sig_ids": sigs[:8],
                    "cells": [list(c) for c in cells[:6]],
                    "labels": [g.get(f"CELLPRN_{k:02d}") + "/" + str(g.get(f"CELLSIG_{k:02d}")) for k in range(1, min(7, len(cells) + 1))]})


def run(ctx):
    rng = ctx.rng
    ctx.cov = set()
    ids = [str(n) for n in refmsm.MSM_NUMBERS]
    full = lambda w: (1 << w) - 1  # noqa: E731
    for k, identity in enumerate(ids):
        if not ctx.mine(k):
            continue
        T = rng.getrandbits
        # empty masks
        for opt in (1, 2):
            check(ctx, identity, 0, 0, 0, opt, T(40))
            check(ctx, identity, 1 << rng.randrange(64), 0, 0, opt, T(40))
            check(ctx, identity, 0, 1 << rng.randrange(32), 0, opt, T(40))
        # each satellite bit alone, with 1..3 signals
        for sb in range(64):
            sig = sum(1 << b for b in rng.sample(range(32), rng.randint(1, 3)))
            w = bin(sig).count("1")
            check(ctx, identity, 1 << sb, sig, full(w), 1 + (sb & 1), T(40))
            ctx.hit("sat_bit_alone")
        # each signal bit alone, with 1..3 satellites
        for gb in range(32):
            sat = sum(1 << b for b in rng.sample(range(64), rng.randint(1, 3)))
            w = bin(sat).count("1")
            for opt in (1, 2):
                check(ctx, identity, sat, 1 << gb, full(w), opt, T(40))
            ctx.hit("sig_bit_alone")
        # all signal bits at once with 2 satellites (64 cells), all satellites with one signal
        for opt in (1, 2):
            check(ctx, identity, 0b11 << rng.randrange(62), full(32), full(64), opt, T(40))
            check(ctx, identity, full(64), 1 << rng.randrange(32), full(64), opt, T(40))
            check(ctx, identity, full(64), 1 << rng.randrange(32), T(64), opt, T(40))
        # random shapes
        for _ in range(2000 if ctx.quick else 36000):
            nsat = rng.randint(1, 64)
            nsig = rng.randint(1, max(1, min(32, 64 // nsat)))
            sat = sum(1 << b for b in rng.sample(range(64), nsat))
            sig = sum(1 << b for b in rng.sample(range(32), nsig))
            w = nsat * nsig
            cm = rng.choice((T(w), T(w), T(w) & T(w), full(w), 0, 1, 1 << (w - 1)))
            check(ctx, identity, sat, sig, cm, rng.choice((1, 2)), T(40))
        # the SAME masks in every constellation, one after the other (and the transposed shape with the same cell-mask
        # value): labels depend on the constellation and on the shape, not only on the mask values
        for _ in range(60 if ctx.quick else 1200):
            nsat = rng.randint(1, 8)
            nsig = rng.randint(1, 8)
            sat = sum(1 << b for b in rng.sample(range(64), nsat))
            sig = sum(1 << b for b in rng.sample(range(32), nsig))
            cm = rng.choice((T(nsat * nsig), full(nsat * nsig)))
            lvl = identity[3]
            order = [g + lvl for g in refmsm.CONSTELLATION]
            rng.shuffle(order)
            opt = rng.choice((1, 2))
            for other in order[: 3 if ctx.quick else 7] + [identity]:
                if other in ids:
                    check(ctx, other, sat, sig, cm, opt, T(40))
            sat2 = sum(1 << b for b in rng.sample(range(64), nsig))
            sig2 = sum(1 << b for b in rng.sample(range(32), nsat))
            check(ctx, identity, sat2, sig2, cm, opt, T(40))
            # same satellites and same cell mask, ANOTHER signal mask with the same number of signals, right afterwards
            sig3 = sum(1 << b for b in rng.sample(range(32), nsig))
            check(ctx, identity, sat, sig3, cm, opt, T(40))
            check(ctx, identity, sat, sig, cm, opt, T(40))
            # satellite mask and signal mask holding the SAME number (compare-by-value slips)
            v = sum(1 << b for b in rng.sample(range(32), rng.randint(1, 5)))
            w = bin(v).count("1") ** 2
            check(ctx, identity, v, v, rng.choice((T(w), (1 << w) - 1)), opt, T(40))
            ctx.hit("same_masks_across_constellations")
        # mask pairs whose NUMBERS read the same when written one after the other in decimal ("1"+"64" / "16"+"4"),
        # with the same cell-mask value, parsed right after each other
        done = 0
        while done < (30 if ctx.quick else 600):
            a = rng.getrandbits(rng.choice((3, 7, 12, 20)))
            b = rng.getrandbits(rng.choice((3, 7, 12, 20)))
            txt = str(a) + str(b)
            cuts = [c for c in range(1, len(txt)) if c != len(str(a)) and txt[c] != "0" and txt[0] != "0"
                    and int(txt[:c]) < (1 << 64) and 0 < int(txt[c:]) < (1 << 32)]
            if not a or not b or not cuts:
                continue
            c = rng.choice(cuts)
            opt = rng.choice((1, 2))
            for sm, gm in ((a, b), (int(txt[:c]), int(txt[c:])), (a, b)):
                w = bin(sm).count("1") * bin(gm).count("1")
                if 0 < w <= 64:
                    check(ctx, identity, sm, gm, rng.choice((1, 3)) & ((1 << w) - 1), opt, T(40))
            done += 1
            ctx.hit("decimal_split_mask_pairs")
        # wider than 64 cells (engine still has to scan correctly; counts only matter) - a few
        for _ in range(2 if ctx.quick else 40):
            nsat = rng.randint(9, 40)
            nsig = rng.randint(8, 20)
            sat = sum(1 << b for b in rng.sample(range(64), nsat))
            sig = sum(1 << b for b in rng.sample(range(32), nsig))
            cm = T(nsat * nsig) & T(nsat * nsig) & T(nsat * nsig)
            if bin(cm).count("1") <= 64:
                pass
    ctx.hit("sat_ids_covered", sum(1 for c in ctx.cov if c[0] == "sat"))
    ctx.hit("sig_ids_covered", sum(1 for c in ctx.cov if c[0] == "sig"))


def finalize(tier, counters, notes):
    return {"coverage_note": "sat_ids_covered / sig_ids_covered count (constellation-level, ID) pairs summed over "
                             "workers (a pair seen by several workers is counted once per worker)"}


def replay(ctx, p):
    ctx.cov = set()
    check(ctx, p["identity"], p["satmask"], p["sigmask"], p["cellmask"], p["opt"], p["seedtag"])
