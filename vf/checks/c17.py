"""C17 - Reader options have only their documented effect.

Differential monitor across option settings on the same stream, with per-frame consumption
offsets taken from the recording stream double.
"""

from vf import common, doubles, refcrc, refmodel, streams
from vf.checks import c02

LEVEL = "exploration"
RULE = (
    "case = (stream of parseable frames, checksum-only-damaged frames, NMEA, UBX and inert noise; option setting "
    "validate in {0,1} x parsed in {True,False} x labelmsm in {1,2} x error mode in {0,1,2}). Checked: with validate=0 "
    "every frame incl. wrong-checksum ones is returned and decodes exactly like its right-checksum twin (reader and "
    "static parser); with parsed=False the raw sequence equals the parsed=True sequence on streams of valid frames "
    "and every parsed object is None; (raw, end offset) of every delivered frame is identical across settings and the "
    "whole stream is consumed. distinct = blake2b(stream, setting); non-trivial = stream has >= 2 frames and >= 1 "
    "foreign item or damaged checksum"
)
RULE += (
    ' Also: seekable and bytearray-returning streams; equal bogus trailers on equal-length frames; frames'
    ' embedding sync-like material; payload sizes 256/509-512/767/1021-1023; frames with steered checksum'
    ' bytes; a bystander reader with the opposite options kept alive; with validation off every raw frame'
    ' is returned also when parsing is off; the right-checksum twin through the static parser as bytearray'
    ' with validation on.'
)
RULE += (
    " Also: UBX items of 256..900 bytes quoting RTCM material."
)
ASSUMPTIONS = ["checksum-only damage: the three CRC bytes are replaced by a different value; header and payload intact"]
GATES = ["settings_compared", "validate0_twin_checked", "parsed_false_checked", "offsets_compared",
         "static_validate0_checked", "seekable_backend", "plain_backend"]


BYSTANDERS = [0]
POSITIONAL = [0, 0]  # readers built by keyword only / with leading positional options


def make(rng, with_damage):
    items = []
    n = rng.randint(3, 14)
    for _ in range(n):
        k = rng.random()
        if k < 0.55:
            kind = rng.choice(("defined", "defined", "unknown", "len255", "defmax", "steered", "steered",
                               rng.choice(("len256", "len509", "len510", "len511", "len512", "len767", "len1021",
                                           "len1022", "len1023"))))
            fr, p, _ = streams.rand_frame(rng, kind)
            if with_damage and rng.random() < 0.2:
                # equal-length frames of one fixed-size type, later given the SAME bogus trailer
                fr = refcrc.frame(streams.rand_defined_payload(rng, rng.choice(("1005", "1006", "1019", "1020"))))
            if with_damage and rng.random() < 0.15:
                # unknown-type frame whose payload embeds sync-like material (a complete small frame, an
                # NMEA start, a UBX header): all of it belongs to this frame
                emb = rng.choice((refcrc.frame(streams.rand_unknown_payload(rng, rng.randint(2, 12))),
                                  b"$GNGGA,1,2,3", b"\xb5\x62\x01\x02" + bytes([rng.randint(0, 200), 0]),
                                  b"\xd3\x00\x02"))
                pre = streams.rand_unknown_payload(rng, rng.randint(2, 9))
                fr = refcrc.frame(pre + emb + bytes(rng.getrandbits(8) for _ in range(rng.randint(0, 6))))
            if with_damage and rng.random() < 0.4:
                style = rng.random()
                if style < 0.5:
                    tr = bytes(x ^ m for x, m in zip(fr[-3:], (rng.randint(1, 255), rng.getrandbits(8), rng.getrandbits(8))))
                elif style < 0.7:
                    tr = b"\x00\x00\x00"
                elif style < 0.8:
                    tr = b"\xff\xff\xff"
                else:
                    prev = [b for k2, b, _ in items if k2 in ("frame", "badcrc")]
                    tr = prev[-1][-3:] if prev else b"\x00\x00\x01"
                if tr == fr[-3:]:
                    tr = bytes([tr[0] ^ 1]) + tr[1:]
                bad = fr[:-3] + tr
                items.append(("badcrc", bad, fr))
            else:
                items.append(("frame", fr, fr))
        elif k < 0.7:
            items.append(("nmea", streams.nmea(rng), None))
        elif k < 0.85:
            items.append(("ubx", streams.ubx_quote(rng) if rng.random() < 0.3 else streams.ubx(rng, 120), None))
        else:
            items.append(("noise", streams.inert_noise(rng), None))
    return items


def drive(data, validate, parsed, labelmsm, mode, seekable=False):
    from pyrtcm import RTCMReader

    libs = common.lib_errors()
    cls = doubles.SeekableRecordingStream if seekable else doubles.RecordingStream
    # one run in three hands out bytearrays from read()/readline() (decided by the data, so all settings of one
    # case see the same kind of stream)
    ds = cls(data, budget=6 * len(data) + 16, rtype=bytearray if len(data) % 3 == 0 else None)
    from vf import posargs

    # some readers get their leading options by POSITION, in the documented order (decided by the data, so all
    # settings of one case are built the same way)
    npos = posargs.npos_for(len(data) // 3)
    POSITIONAL[min(npos, 1)] += 1
    rdr = posargs.make_reader(RTCMReader, ds, npos, validate=validate, parsed=parsed, labelmsm=labelmsm,
                              quitonerror=mode, errorhandler=(lambda e: None))
    if len(data) % 2 == 0:
        # a second reader with the OPPOSITE options is created afterwards and stays alive (never read): options are
        # per reader
        import io

        bystander = RTCMReader(io.BytesIO(b""), validate=1 - validate, parsed=not parsed, labelmsm=3 - labelmsm
                               if labelmsm in (1, 2) else 1, quitonerror=mode)
        BYSTANDERS[0] += 1
    out = []
    guard = len(data) + 16
    while guard > 0:
        guard -= 1
        try:
            raw, p = rdr.read()
        except libs:
            continue
        if raw is None and p is None:
            break
        out.append((bytes(raw), ds.pos, p))
    return out, ds.pos


def attrs(m):
    return [(k, v) for k, v in m.__dict__.items() if not k.startswith("_")]


def eq(a, b):
    return len(a) == len(b) and all(n1 == n2 and refmodel.values_equal(v1, v2) for (n1, v1), (n2, v2) in zip(a, b))


def run_case(ctx, items, labelmsm, seekable=False):
    from pyrtcm import RTCMMessage, RTCMReader

    data = b"".join(b for _, b, _ in items)
    params = {"items": [[k, b.hex(), (t.hex() if t else None)] for k, b, t in items], "labelmsm": labelmsm,
              "seekable": seekable}
    ctx.hit("seekable_backend" if seekable else "plain_backend")
    sent = [(b, t) for k, b, t in items if k in ("frame", "badcrc")]
    has_damage = any(k == "badcrc" for k, _, _ in items)
    runs = {}
    try:
        for validate in (0, 1):
            for parsed in (True, False):
                for mode in (0, 1, 2):
                    runs[(validate, parsed, mode)] = drive(data, validate, parsed, labelmsm, mode, seekable)
    except BaseException as e:
        ctx.violation("reader-raised", f"{type(e).__name__}: {e}", params)
        return
    # every run consumes the whole stream
    for key, (out, endpos) in runs.items():
        if endpos != len(data):
            ctx.violation("bytes-not-consumed", f"setting validate/parsed/mode={key}: stopped at offset {endpos} of "
                          f"{len(data)}", params)
            return
    ref, _ = runs[(0, True, 0)]
    # validate=0: every frame delivered, decoded as its right-checksum twin
    if [r for r, _, _ in ref] != [b for b, _ in sent]:
        ctx.violation("validate0-frames-differ", f"validate=0: {len(ref)} frames delivered, {len(sent)} sent "
                      f"({sum(1 for k, _, _ in items if k == 'badcrc')} with wrong checksum)", params)
        return
    for (raw, pos, m), (b, twin) in zip(ref, sent):
        # the twin is built on the same buffer type the reader handed out (bytes, or bytearray when the stream returns
        # bytearrays): the repr of a message names that type
        ptype = bytearray if (m is not None and isinstance(m.payload, bytearray)) else bytes
        good = RTCMMessage(payload=ptype(twin[3:-3]), labelmsm=labelmsm)
        if m is None or not eq(attrs(m), attrs(good)) or m.payload != good.payload or (
                m.serialize() != good.serialize() or str(m) != str(good) or repr(m) != repr(good)):
            ctx.violation("validate0-decodes-differently", f"validate=0: frame {raw[:8].hex()}.. decodes differently "
                          f"from the same payload with a right checksum", params)
            return
        ctx.hit("validate0_twin_checked")
        if len(twin) % 4 == 0:
            # the right-checksum twin through the static parser with validation ON, handed over as a bytearray
            try:
                s1 = RTCMReader.parse(bytearray(twin), validate=1, labelmsm=labelmsm)
            except Exception as e:
                ctx.violation("static-validate1-rejects-good-frame", f"RTCMReader.parse(bytearray(valid frame), "
                              f"validate=1) raised {type(e).__name__}: {e}", params)
                return
            if not eq(attrs(s1), attrs(good)):
                ctx.violation("validate0-decodes-differently", "static parser, validate=1, bytearray input: decodes "
                              "differently from the constructor", params)
                return
            ctx.hit("static_validate1_bytearray_checked")
        if raw != twin:
            try:
                s = RTCMReader.parse(raw, validate=0, labelmsm=labelmsm)
            except Exception as e:
                ctx.violation("static-validate0-rejects", f"RTCMReader.parse(wrong-CRC frame, validate=0) raised "
                              f"{type(e).__name__}: {e}", params)
                return
            if not eq(attrs(s), attrs(good)) or s.serialize() != good.serialize() or str(s) != str(good):
                ctx.violation("validate0-decodes-differently", "static parser with validate=0 decodes a wrong-CRC frame "
                              "differently from its twin", params)
                return
            ctx.hit("static_validate0_checked")
    refmap = [(r, p) for r, p, _ in ref]
    for key, (out, _) in runs.items():
        validate, parsed, mode = key
        got = [(r, p) for r, p, _ in out]
        if not parsed:
            if any(m is not None for _, _, m in out):
                ctx.violation("parsed-false-returns-object", f"setting {key}: a parsed object was returned", params)
                return
            if validate == 0 and got != refmap:
                # validation off accepts wrong checksums whether or not the frames are parsed
                ctx.violation("validate0-frames-differ", f"setting {key}: with validation off and parsing off "
                              f"{len(got)} raw frames were returned, {len(refmap)} were sent", params)
                return
            if not has_damage and got != refmap:
                ctx.violation("parsed-false-frames-differ", f"setting {key}: raw sequence/offsets differ from parsing on: "
                              f"{len(got)} vs {len(refmap)} frames", params)
                return
            ctx.hit("parsed_false_checked")
        # every delivered (raw, end offset) must be one of the reference run's, in order
        j = 0
        for g in got:
            while j < len(refmap) and refmap[j] != g:
                j += 1
            if j >= len(refmap):
                ctx.violation("consumption-differs", f"setting {key}: frame {g[0][:8].hex()}.. ends at offset {g[1]}, "
                              f"which no frame of the validate=0 run does (different number of bytes taken)", params)
                return
            j += 1
        ctx.hit("offsets_compared", len(got))
        if validate == 0 and parsed and got != refmap:
            ctx.violation("validate0-frames-differ", f"setting {key}: with validation off {len(got)} frames were "
                          f"returned, {len(refmap)} were sent (error mode must not matter)", params)
            return
        if validate == 1 and parsed:
            want = [(b, p) for (b, p), (_, twin) in zip(refmap, sent) if b == twin]
            if got != want:
                ctx.violation("validate1-frames-differ", f"setting {key}: {len(got)} frames, expected the {len(want)} "
                              f"with a right checksum", params)
                return
        ctx.hit("settings_compared")
    nf = len(sent)
    ctx.case(data + bytes([labelmsm]), nf >= 2 and (has_damage or any(t is None for _, _, t in items)))
    ctx.sample({"items": [k for k, _, _ in items], "stream_len": len(data), "frames": nf,
                "settings": len(runs), "end_offsets": [p for _, p in refmap][:8]}, limit=2)


def run(ctx):
    common.quiet_logging()
    rng = ctx.rng
    if ctx.worker % 4 == 3 or not ctx.quick:
        # more than a thousand wrong-checksum frames in a row (a noisy link), good frames before and after
        items = []
        for _ in range(2):
            fr, p, _k = streams.rand_frame(rng, "defined")
            items.append(("frame", fr, fr))
        for _ in range(1300):
            fr = refcrc.frame(streams.rand_unknown_payload(rng, rng.randint(2, 5)))
            items.append(("badcrc", fr[:-1] + bytes([fr[-1] ^ 0x04]), fr))
        for _ in range(3):
            fr, p, _k = streams.rand_frame(rng, "unknown")
            items.append(("frame", fr, fr))
        run_case(ctx, items, 1)
        ctx.hit("long_damaged_runs")
    for i in range(ctx.n(6000, 60000)):
        run_case(ctx, make(rng, with_damage=bool(i % 2)), 1 + (i // 2) % 2, seekable=bool((i // 4) % 2))


def replay(ctx, p):
    common.quiet_logging()
    items = [(k, bytes.fromhex(b), (bytes.fromhex(t) if t else None)) for k, b, t in p["items"]]
    run_case(ctx, items, p["labelmsm"], p.get("seekable", False))
