"""C03 - Every data field decodes to the value its bits encode, for all message types.

Reference-model monitor: vf.refmodel lays out messages from the definitions with its own engine and
predicts every public attribute; the real parser's result is compared attribute by attribute.
Metamorphic monitors: changing one plain field changes that attribute only; appended bytes change
nothing. Internal (optional) icontract post-condition on the field decoder: offsets stay within
the payload and never decrease.
"""

from vf import bits as B
from vf import monitors, refcrc, refmodel, streams

LEVEL = "exploration"
RULE = (
    "case = (identity, value strategy in {zero, ones, signbit, maxmag, alt, random, mixed}, count strategy in "
    "{zero, one, max-that-fits-1023-bytes, small, random}, MSM mask strategy, pad-bit value) -> reference message "
    "built from the definition by an independent walker, parsed by the real RTCMMessage and compared attribute "
    "by attribute; plus single-plain-field rewrites and random tail extensions of the same message. "
    "distinct = blake2b(payload, relation); non-trivial = the message has at least one decoded data field "
    "besides the message number"
)
RULE += (
    ' Also: the payload is handed over as bytes / bytearray / bytes subclass / read-only memoryview /'
    ' writable view into a larger buffer, through the constructor or the static frame parser (after'
    ' CRC-colliding twins of the same frame were parsed); cell masks wider than 64 bits are checked only'
    " for 'accepted => decoded as announced'; a second, pinned oracle (vf.stdlayout) for 134 identities."
)
RULE += (
    " Also: the frame read through one stream reader behind a CRC collider of the same length; 4076_201 layers related by an equal cosine-coefficient count."
)
ASSUMPTIONS = [
    "definition tables are read as data (their conformance to the standards is C10's subject)",
    "STR code units are generated in 1..255 (zero code units are not claimed); harmonic orders M <= N",
    "MSM cell-mask width NSat x NSig is kept <= 64 in value oracles (the standard's limit)",
    "label attribute VALUES (PRN/CELLPRN/CELLSIG) are C09's subject; here only their presence is required",
    "attribute ORDER is not compared, only the name -> value mapping",
]
GATES = ["compared", "flip_checked", "tail_checked", "identities", "pinned_checked"]


def parse(payload, rep="bytes", entry="ctor"):
    """Decode through the constructor or the static frame parser, the bytes handed over as `rep`."""
    from pyrtcm import RTCMMessage, RTCMReader

    if entry == "ctor":
        return RTCMMessage(payload=streams.as_rep(rep, payload))
    if entry == "reader":
        # through ONE stream reader, behind a different valid frame of the same length with the same checksum bytes
        import io

        fr = refcrc.frame(payload)
        twin = streams.crc_collider(fr, __import__("random").Random(len(payload)))
        data = (twin if twin is not None else b"") + fr
        out = [m for raw, m in RTCMReader(io.BytesIO(data), quitonerror=0) if bytes(raw) == fr]
        if not out:
            raise RuntimeError("the frame was not returned by the reader")
        return out[-1]
    fr = refcrc.frame(payload)
    if len(payload) % 4 == 1:
        # the documented positional order parse(message, validate, labelmsm) with validation OFF and a wrong checksum
        # trailer: the fields decode all the same (a keyword-only signature is tolerated)
        bad = fr[:-1] + bytes([fr[-1] ^ 0x5A])
        try:
            return RTCMReader.parse(streams.as_rep(rep, bad), 0)
        except TypeError as e:
            if "positional" not in str(e):
                raise
    return RTCMReader.parse(streams.as_rep(rep, fr))


def collider_first(payload, rng):
    """Parse (through the static parser) a DIFFERENT valid frame of the same length with the same CRC trailer first:
    the generator polynomial xor-ed into the body, behind the message number. Returns how many twins were accepted."""
    from pyrtcm import RTCMReader

    frame = refcrc.frame(payload)
    nb = len(payload) * 8
    done = 0
    for _ in range(4):
        if nb < 12 + 25 + 1:
            break
        shift = rng.randrange(0, nb - 12 - 25 + 1)  # pattern's low bit, counted from the end of the payload
        v = int.from_bytes(payload, "big") ^ (refcrc.POLY << shift)
        twin = v.to_bytes(len(payload), "big")
        tf = frame[:3] + twin + frame[-3:]
        if refcrc.wellformed(tf) is not None:
            continue
        try:
            RTCMReader.parse(tf)
            done += 1
        except Exception:
            pass
    return done


def check_message(ctx, identity, vs, cs, ms, pad1, seedtag):
    import random

    rng = random.Random(seedtag)
    params = {"identity": identity, "vstrat": vs, "cstrat": cs, "mstrat": ms, "pad1": pad1, "seedtag": seedtag}
    try:
        enc = refmodel.build(identity, rng, vs, cs, ms, pad1=pad1)
    except refmodel.DefinitionError as e:
        ctx.violation("malformed-definition", f"{identity}: {e}", params)
        return None
    monitors.CURRENT["identity"] = identity
    # entry point and representation of the caller's data (all derived from the case seed)
    rep = streams.pick_rep(rng, 0.6)
    entry = "ctor" if rng.random() < 0.6 or len(enc.payload) > 1023 else rng.choice(("frame", "frame", "reader"))
    ctx.hit("entry:" + entry)
    ctx.hit("rep:" + rep)
    if entry == "frame" and rng.random() < 0.5:
        ctx.hit("crc_twins_parsed_first", collider_first(enc.payload, rng))
    try:
        msg = parse(enc.payload, rep, entry)
    except Exception as e:
        ctx.violation("parse-raised", f"{identity} ({vs},{cs},{ms}) payload {enc.payload[:24].hex()}.. "
                      f"[{len(enc.payload)} bytes]: {type(e).__name__}: {str(e)[:200]}", params)
        return None
    diff = refmodel.compare(enc, msg)
    ctx.hit("compared")
    if diff:
        ctx.violation("value-mismatch", f"{identity} ({vs},{cs},{ms}): {diff}", params)
        return None
    ndata = sum(1 for f in enc.fields if f["width"] > 0)
    ctx.case(enc.payload + b"|base", ndata > 1)
    for f in enc.fields:
        ctx.leafseen.add((identity, f["key"]))
    mx = max((max(f["index"]) for f in enc.fields if f["index"]), default=0)
    if mx > ctx.maxindex:
        ctx.maxindex = mx
    if mx >= 100:
        ctx.hit("three_digit_index_messages")
    if any(len(f["index"]) >= 2 for f in enc.fields):
        ctx.hit("nested_messages")
    ctx.hit("fields_compared", len(enc.expected))
    # ---- metamorphic: rewrite one plain field
    plain = [f for f in enc.fields if f["role"] == "plain" and f["width"] > 0]
    got0 = dict(refmodel.public_attrs(msg))
    for _ in range(ctx.nflips):
        if not plain:
            break
        f = rng.choice(plain)
        w = f["width"]
        choice = rng.random()
        if choice < 0.3:
            new = f["raw"] ^ (1 << rng.randrange(w))
        elif choice < 0.5:
            new = f["raw"] ^ ((1 << w) - 1)
        else:
            new = rng.getrandbits(w)
            if new == f["raw"]:
                new ^= 1
        p2 = B.set_bits(enc.payload, f["start"], w, new)
        try:
            m2 = parse(p2, rep, entry)
        except Exception as e:
            ctx.violation("flip-parse-raised", f"{identity}: rewriting {f['name']} raw {f['raw']}->{new}: "
                          f"{type(e).__name__}: {str(e)[:160]}", dict(params, flip=[f["name"], new]))
            return None
        got2 = dict(refmodel.public_attrs(m2))
        want = refmodel.decode_value(f["typ"], w, f["res"], new)
        ctx.hit("flip_checked")
        bad = None
        if set(got2) != set(got0):
            bad = f"attribute set changed: {sorted(set(got2) ^ set(got0))[:6]}"
        elif not refmodel.values_equal(got2[f["name"]], want):
            bad = f"{f['name']} is {got2[f['name']]!r}, bits encode {want!r}"
        else:
            for k, v in got0.items():
                if k != f["name"] and not refmodel.values_equal(got2[k], v):
                    bad = f"rewriting {f['name']} also changed {k}: {v!r} -> {got2[k]!r}"
                    break
        if bad:
            ctx.violation("flip-relation", f"{identity}: {bad}", dict(params, flip=[f["name"], new]))
            return None
        ctx.case(p2 + b"|flip", True)
    # ---- metamorphic: bytes after the last field change nothing
    for _ in range(ctx.ntails):
        tail = bytes(rng.getrandbits(8) for _ in range(rng.choice((1, 1, 2, 5, 17))))
        if len(enc.payload) + len(tail) > 1023:
            continue
        try:
            m3 = parse(enc.payload + tail, rep, entry if len(enc.payload) + len(tail) <= 1023 else "ctor")
        except Exception as e:
            ctx.violation("tail-parse-raised", f"{identity}: appending {tail.hex()}: {type(e).__name__}: {e}",
                          dict(params, tail=tail.hex()))
            return None
        got3 = dict(refmodel.public_attrs(m3))
        ctx.hit("tail_checked")
        if set(got3) != set(got0) or any(not refmodel.values_equal(got3[k], v) for k, v in got0.items()):
            ch = [k for k in got0 if k not in got3 or not refmodel.values_equal(got3[k], got0[k])][:5]
            ctx.violation("tail-relation", f"{identity}: appending {tail.hex()} changed {ch}",
                          dict(params, tail=tail.hex()))
            return None
        ctx.case(enc.payload + tail + b"|tail", True)
    # internal contract violations recorded by the icontract post-condition
    if monitors.RECORDED:
        kind, desc = monitors.RECORDED[0]
        del monitors.RECORDED[:]
        ctx.hit("internal:" + kind)  # evidence only (C06 decides reads past the end at the boundary)
    return enc


def recorded_case(ctx, name, frame):
    """A frame from the repository's recorded receiver / caster logs (realistic content): the reference DECODER walks
    the same bytes and predicts every attribute."""
    from vf import common

    payload = frame[3:-3]
    identity = common.expected_identity(payload)
    params = {"recorded": frame.hex(), "log": name}
    if identity is None or identity not in refmodel.identities():
        return
    try:
        ref = refmodel.decode(identity, payload)
    except (refmodel.Short, refmodel.DefinitionError):
        ctx.hit("recorded_frames_short_or_undefined")
        return
    for rep, entry in (("bytes", "frame"), ("bytearray", "ctor")):
        try:
            msg = parse(payload, rep, entry)
        except Exception as e:
            ctx.violation("parse-raised", f"recorded {identity} frame from {name}: {type(e).__name__}: {str(e)[:160]}", params)
            return
        diff = refmodel.compare(ref, msg)
        if diff and ref.meta.get("zero_str"):
            # text padded with NUL code units (real casters do that): whether NUL units appear in the joined string is
            # not judged here (as for generated messages, which avoid the value 0 in text units); everything else is
            exp = ref.expected_dict()
            got = dict(refmodel.public_attrs(msg))
            diff = None
            for k_, v_ in exp.items():
                if isinstance(v_, tuple):
                    continue
                if isinstance(v_, str):
                    if k_ not in got or str(got[k_]).replace("\x00", "") != v_.replace("\x00", ""):
                        diff = f"text attribute {k_}: parsed {got.get(k_)!r}, bits encode {v_!r}"
                        break
                elif k_ not in got or not refmodel.values_equal(got[k_], v_):
                    diff = f"attribute {k_}: parsed {got.get(k_)!r}, bits encode {v_!r}"
                    break
            ctx.hit("recorded_frames_with_nul_text")
        if diff:
            ctx.violation("value-mismatch", f"recorded {identity} frame from {name}: {diff}", params)
            return
    ctx.hit("recorded_frames_compared")
    ctx.case(payload + b"|rec", True)


def wide_mask_case(ctx, identity, seedtag):
    """MSM with NSat x NSig > 64 (beyond the standard's limit): the parser may reject the message with a
    library error, or decode it with the cell mask NSat x NSig bits wide - but never silently otherwise."""
    import random

    from vf import common

    rng = random.Random(seedtag)
    nsat = rng.randint(3, 40)
    nsig = rng.randint(max(2, 65 // nsat + 1), min(32, max(2, 400 // nsat)))
    if nsat * nsig <= 64:
        return
    sat = sum(1 << b for b in rng.sample(range(64), nsat))
    sig = sum(1 << b for b in rng.sample(range(32), nsig))
    cm = 0
    for b in rng.sample(range(nsat * nsig), rng.randint(0, 12)):
        cm |= 1 << b
    params = {"identity": identity, "seedtag": seedtag, "wide": True}
    try:
        enc = refmodel.build(identity, rng, "random", "small", "random",
                             force={"DF394": sat, "DF395": sig, "DF396": cm}, maxcells=4096)
    except (refmodel.DefinitionError, RuntimeError):
        return
    try:
        msg = parse(enc.payload)
    except common.lib_errors():
        ctx.hit("wide_mask_rejected")
        return
    except Exception as e:
        ctx.violation("parse-raised", f"{identity} wide mask {nsat}x{nsig}: {type(e).__name__}: {e}", params)
        return
    diff = refmodel.compare(enc, msg)
    ctx.hit("wide_mask_compared")
    if diff:
        ctx.violation("value-mismatch", f"{identity} with NSat x NSig = {nsat}x{nsig} > 64 accepted but decoded "
                      f"differently from a {nsat * nsig}-bit cell mask: {diff}", params)
        return
    ctx.case(enc.payload + b"|wide", True)


def run(ctx):
    installed = monitors.install_field_monitor()
    ctx.note("field_contract_installed", installed)
    ctx.leafseen = set()
    ctx.maxindex = 0
    ctx.nflips = 2
    ctx.ntails = 1
    ids = refmodel.identities()
    per = 120 if ctx.quick else 2000
    grid = [(v, c) for v in refmodel.VSTRATS for c in refmodel.CSTRATS]
    mine = [i for k, i in enumerate(ids) if ctx.mine(k)]
    rng = ctx.rng
    sampled = 0
    from vf import common

    for k_, (name_, fr_) in enumerate(common.recorded_frames()):
        if ctx.mine(k_):
            recorded_case(ctx, name_, fr_)
    for identity in mine:
        ctx.hit("identities")
        msm = refmodel.is_msm_identity(identity)
        for j in range(per):
            if j < len(grid):
                vs, cs = grid[j]
            else:
                vs, cs = rng.choice(refmodel.VSTRATS), rng.choice(refmodel.CSTRATS)
            ms = refmodel.MSTRATS[j % len(refmodel.MSTRATS)] if msm else "random"
            enc = check_message(ctx, identity, vs, cs, ms, bool(j & 1), rng.getrandbits(48))
            if enc is None and identity in getattr(ctx, "_bad", set()):
                break
            if enc is None:
                ctx._bad = getattr(ctx, "_bad", set()) | {identity}
                continue
            if sampled < 2 and len(enc.expected) > 6 and j > 20:
                sampled += 1
                ctx.sample({"identity": identity, "strategy": [vs, cs, ms], "payload_hex": enc.payload[:40].hex(),
                            "payload_bits": enc.nbits,
                            "expected_first": [[n, v if not isinstance(v, tuple) else list(v)]
                                               for n, v, _ in enc.expected[:8]]})
        if msm:
            for _ in range(6 if ctx.quick else 200):
                wide_mask_case(ctx, identity, rng.getrandbits(48))
        # second, table-independent oracle where the standard's field-level layout is pinned (vf.stdlayout):
        # representation (unsigned / two's complement / sign-magnitude / character) and resolution per field
        from vf import stdlayout

        if identity in stdlayout.LAYOUT:
            from vf.checks import c10

            for j in range(12 if ctx.quick else 300):
                c10.pinned_case(ctx, identity, refmodel.VSTRATS[j % len(refmodel.VSTRATS)],
                                ("zero", "one", "small", "max")[j % 4],
                                refmodel.MSTRATS[j % len(refmodel.MSTRATS)] if msm else "random",
                                rng.getrandbits(48), mech="standard-representation-mismatch")
        # definition coverage (boundary measure: leaf keys that occurred in compared messages)
        try:
            _, _, leaves = refmodel.prescan(refmodel.tables()[0][identity])
        except refmodel.DefinitionError:
            continue
        for lf in set(leaves):
            ctx.hit("leaf_fields_total")
            if (identity, lf) in ctx.leafseen:
                ctx.hit("leaf_fields_compared")
            else:
                ctx.hit("leaf_fields_uncovered")
                ctx.note("uncovered_example", f"{identity}:{lf}")
            if (identity, lf) in monitors.VISITS:
                ctx.hit("leaf_fields_visited_by_real_decoder")
    ctx.hit("max_group_index_seen", 0)
    ctx.note("max_group_index_seen_w%d" % ctx.worker, ctx.maxindex)
    for k, v in monitors.EVAL.items():
        ctx.hit("contract_eval:" + k, v)


def finalize(tier, counters, notes):
    return {
        "definition_coverage": f"{counters.get('leaf_fields_compared', 0)}/{counters.get('leaf_fields_total', 0)} "
                               f"(identity, leaf field) pairs occurred in compared messages",
        "max_group_index_seen": max([v for k, v in notes.items() if k.startswith("max_group_index_seen_w")] or [0]),
    }


GATES_ZERO = ["leaf_fields_uncovered"]


def replay(ctx, p):
    monitors.install_field_monitor()
    if p.get("kind") == "pinned":
        from vf.checks import c10

        c10.pinned_case(ctx, p["identity"], p["vstrat"], p["cstrat"], p["mstrat"], p["seedtag"],
                        mech="standard-representation-mismatch")
        return
    if p.get("wide"):
        wide_mask_case(ctx, p["identity"], p["seedtag"])
        return
    if p.get("recorded"):
        recorded_case(ctx, p.get("log", "?"), bytes.fromhex(p["recorded"]))
        return
    ctx.leafseen = set()
    ctx.maxindex = 0
    ctx.nflips = 6
    ctx.ntails = 3
    check_message(ctx, p["identity"], p["vstrat"], p["cstrat"], p["mstrat"], p["pad1"], p["seedtag"])
