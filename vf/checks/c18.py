"""C18 - MSM and harmonic-coefficient array helpers agree with the flat attributes.

The helpers' output is compared with the message's own indexed attributes and with the reference
model's expectation; every other message (unknown, non-MSM, reserved MSM numbers) must yield nothing.
"""

import random
import re

from vf import refmodel, refmsm, streams

LEVEL = "exploration"
RULE = (
    "case = (message, helper): parse_msm on MSM messages of all 49 types with mask shapes incl. empty masks and 64 "
    "cells; parse_4076_201 on 4076_201 messages over layers 1..4 and all (degree, order<=degree) incl. 153/136 "
    "coefficients; both helpers on every other defined identity and on stubs of ALL 4096 message numbers (reserved "
    "MSM numbers included). distinct = blake2b(payload, helper); non-trivial = MSM with >= 1 satellite / 4076_201 "
    "with >= 1 coefficient / a message for which the helper must return nothing"
)
RULE += (
    " Also: the helper on the same payload under both label options; parse_4076_201 against the message's"
    ' OWN flat attributes for arbitrary degree / order fields (incl. order > degree).'
)
ASSUMPTIONS = ["dictionary key spellings of the 4076_201 helper are not pinned: the layer height value and the two "
               "coefficient lists must be present in each layer's entry"]
GATES = ["msm_helper_checked", "harm_helper_checked", "other_checked", "reserved_msm_numbers_checked",
         "harm_over_99_coefficients", "msm_empty_masks", "msm_64_cells", "harm_flat_checked",
         "harm_flat_order_above_degree"]

_IDX = re.compile(r"^(.*?)_(\d{2,3})$")


_EARLIER = {}


def check_msm(ctx, identity, enc, labelmsm, params):
    from pyrtcm import RTCMMessage
    from pyrtcm.rtcmhelpers import parse_msm

    m = RTCMMessage(payload=enc.payload, labelmsm=labelmsm)
    try:
        out = parse_msm(m)
    except Exception as e:
        ctx.violation("msm-helper-raised", f"{identity}: parse_msm raised {type(e).__name__}: {e}", params)
        return
    # the result handed out for the PREVIOUS message of this identity must still read as it did then
    prev = _EARLIER.get(identity)
    if prev is not None and repr(prev[0]) != prev[1]:
        ctx.violation("msm-earlier-result-changed", f"{identity}: the result returned for an earlier message changed when "
                      f"parse_msm was called for another message: was {prev[1][:120]}.., now {repr(prev[0])[:120]}..",
                      dict(params, earlier=prev[2]))
        return
    if prev is not None:
        ctx.hit("earlier_results_rechecked")
    _EARLIER[identity] = (out, repr(out), enc.payload.hex())
    if len(enc.payload) % 3 == 0 and isinstance(out, (tuple, list)) and len(out) == 3:
        # what the helper hands out belongs to the caller: after the caller has modified it in place, asking again for
        # the same message gives the unmodified answer
        import copy as _copy

        want_again = _copy.deepcopy(out)
        try:
            for part in out:
                if isinstance(part, dict):
                    part.clear()
                elif isinstance(part, list):
                    part.reverse()
                    del part[:1]
        except Exception:
            pass
        try:
            again = parse_msm(m)
        except Exception as e:
            ctx.violation("msm-helper-raised", f"{identity}: second call of parse_msm raised {type(e).__name__}: {e}", params)
            return
        if repr(again) != repr(want_again):
            ctx.violation("msm-earlier-result-changed", f"{identity}: after the caller modified the returned arrays in place, "
                          f"a second parse_msm(msg) on the same message returns the modified data", params)
            return
        out = again
        meta, sats, cells = out
        _EARLIER[identity] = (out, repr(out), enc.payload.hex())
        ctx.hit("results_modified_by_caller")
    if not out or len(out) != 3:
        ctx.violation("msm-helper-empty", f"{identity}: parse_msm returned {out!r} for an MSM message", params)
        return
    meta, sats, cells = out
    g = {k: v for k, v in m.__dict__.items() if not k.startswith("_")}
    epoch = g.get(refmsm.EPOCH_FIELD[identity[:3]])
    mv = list(meta.values()) if isinstance(meta, dict) else list(meta)
    for want, what in ((identity, "identity"), (g.get("DF003"), "station"), (epoch, "epoch"), (g.get("NSat"), "NSat"),
                       (g.get("NCell"), "NCell")):
        if not any(type(x) is type(want) and x == want for x in mv):
            ctx.violation("msm-meta", f"{identity}: metadata {meta!r} lacks {what} = {want!r}", params)
            return
    if isinstance(meta, dict) and "epoch" in meta and meta["epoch"] != epoch:
        ctx.violation("msm-meta", f"{identity}: epoch {meta['epoch']!r} is not the constellation's epoch field "
                      f"{refmsm.EPOCH_FIELD[identity[:3]]}={epoch!r}", params)
        return
    if len(sats) != g["NSat"] or len(cells) != g["NCell"]:
        ctx.violation("msm-entry-count", f"{identity}: {len(sats)} satellite / {len(cells)} cell entries for NSat="
                      f"{g['NSat']} NCell={g['NCell']}", params)
        return
    for lst, nm in ((sats, "satellite"), (cells, "cell")):
        for i, ent in enumerate(lst, 1):
            for k, v in ent.items():
                name = f"{k}_{i:02d}"
                if name not in g or not (g[name] == v):
                    ctx.violation("msm-entry-value", f"{identity}: {nm} entry {i} has {k}={v!r} but attribute {name}="
                                  f"{g.get(name, '<missing>')!r}", params)
                    return
    # completeness: every indexed attribute appears in the satellite or the cell entry of its index
    for name, v in g.items():
        mt = _IDX.match(name)
        if not mt:
            continue
        k, i = mt.group(1), int(mt.group(2))
        in_s = i <= len(sats) and k in sats[i - 1] and sats[i - 1][k] == v
        in_c = i <= len(cells) and k in cells[i - 1] and cells[i - 1][k] == v
        if not (in_s or in_c):
            ctx.violation("msm-entry-missing", f"{identity}: attribute {name}={v!r} is in neither the satellite nor the "
                          f"cell entry {i}", params)
            return
    ctx.hit("msm_helper_checked")
    if g["NSat"] == 0:
        ctx.hit("msm_empty_masks")
    if g["NCell"] == 64:
        ctx.hit("msm_64_cells")
    ctx.case(enc.payload + b"msm", g["NSat"] >= 1)


def check_harm(ctx, enc, params):
    from pyrtcm import RTCMMessage
    from pyrtcm.rtcmhelpers import parse_4076_201

    m = RTCMMessage(payload=enc.payload)
    try:
        out = parse_4076_201(m)
    except Exception as e:
        ctx.violation("harm-helper-raised", f"parse_4076_201 raised {type(e).__name__}: {e}", params)
        return
    layers = enc.meta.get("layers", [])
    exp = enc.expected_dict()
    if not out or len(out) != len(layers):
        ctx.violation("harm-layer-count", f"helper returned {len(out) if out else 0} layers, message has {len(layers)}",
                      params)
        return
    entries = list(out.values()) if isinstance(out, dict) else list(out)
    for li, ((n, mm, nc, ns), ent) in enumerate(zip(layers, entries), 1):
        height = exp[f"IDF036_{li:02d}"]
        cos = [exp[f"IDF039_{li:02d}_{c:02d}"] for c in range(1, nc + 1)]
        sin = [exp[f"IDF040_{li:02d}_{c:02d}"] for c in range(1, ns + 1)]
        vals = list(ent.values()) if isinstance(ent, dict) else list(ent)
        scal = [v for v in vals if not isinstance(v, (list, tuple))]
        lists = [list(v) for v in vals if isinstance(v, (list, tuple))]
        if not any(refmodel.values_equal(s, height) for s in scal):
            ctx.violation("harm-height", f"layer {li}: height {height!r} not in entry {scal!r}", params)
            return
        for want, nm in ((cos, "cosine"), (sin, "sine")):
            if not any(len(l) == len(want) and all(refmodel.values_equal(a, b) for a, b in zip(l, want)) for l in lists):
                ctx.violation("harm-coefficients", f"layer {li} (N={n}, M={mm}): the {len(want)} {nm} coefficients are not "
                              f"returned in order (list lengths returned: {[len(l) for l in lists]})", params)
                return
        if nc > 99:
            ctx.hit("harm_over_99_coefficients")
    ctx.hit("harm_helper_checked")
    ctx.case(enc.payload + b"harm", any(l[2] for l in layers))


def check_harm_flat(ctx, layers_nm, seedtag):
    """parse_4076_201 against the message's OWN flat attributes for arbitrary degree/order fields (order above the
    degree included): whatever the decoder produced for a layer, the helper must return exactly that, in order."""
    from pyrtcm import RTCMMessage
    from pyrtcm.rtcmhelpers import parse_4076_201

    from vf import bits as B

    rng = random.Random(seedtag)
    w = B.BitWriter()
    w.put(4076, 12)
    w.put(rng.getrandbits(3), 3)
    w.put(201, 8)
    w.put(rng.getrandbits(20 + 4 + 1 + 4 + 16 + 4 + 9), 58)
    w.put(len(layers_nm) - 1, 2)
    for n_1, m_1 in layers_nm:
        w.put(rng.getrandbits(8), 8)
        w.put(n_1, 4)
        w.put(m_1, 4)
        w.put(rng.getrandbits(16 * 40), 16 * 40)  # generous data: any count formula finds bits for a layer
    payload = w.bytes() + bytes(rng.getrandbits(8) for _ in range(200))
    payload = payload[:1023]
    params = {"kind": "harmflat", "layers": [list(x) for x in layers_nm], "seedtag": seedtag}
    try:
        m = RTCMMessage(payload=payload)
    except Exception:
        ctx.hit("harmflat_unparseable")
        return
    try:
        out = parse_4076_201(m)
    except Exception as e:
        ctx.violation("harm-helper-raised", f"layers (degree-1, order-1) {layers_nm}: parse_4076_201 raised "
                      f"{type(e).__name__}: {e}", params)
        return
    g = {k: v for k, v in m.__dict__.items() if not k.startswith("_")}
    entries = list(out.values()) if isinstance(out, dict) else list(out or [])
    nl = g.get("IDF035", -1) + 1
    if len(entries) != nl:
        ctx.violation("harm-layer-count", f"layers {layers_nm}: helper returned {len(entries)} layers, message has {nl}",
                      params)
        return
    for li, ent in enumerate(entries, 1):
        for fld in ("IDF039", "IDF040"):
            flat = []
            i = 1
            while f"{fld}_{li:02d}_{i:02d}" in g:
                flat.append(g[f"{fld}_{li:02d}_{i:02d}"])
                i += 1
            lists = [list(v) for v in (ent.values() if isinstance(ent, dict) else ent) if isinstance(v, (list, tuple))]
            if not any(l == flat for l in lists):
                ctx.violation("harm-coefficients", f"layers {layers_nm}: layer {li} has {len(flat)} decoded {fld} attributes "
                              f"but the helper returns lists of lengths {[len(l) for l in lists]}", params)
                return
    ctx.hit("harm_flat_checked")
    if any(m_1 > n_1 for n_1, m_1 in layers_nm):
        ctx.hit("harm_flat_order_above_degree")
    ctx.case(payload + b"harmflat", True)


def check_other(ctx, payload, tag, params):
    from pyrtcm import RTCMMessage
    from pyrtcm.rtcmhelpers import parse_4076_201, parse_msm

    try:
        m = RTCMMessage(payload=payload)
    except Exception:
        return
    for fn, nm, applies in ((parse_msm, "parse_msm", refmodel.is_msm_identity(m.identity)),
                            (parse_4076_201, "parse_4076_201", m.identity == "4076_201")):
        if applies:
            continue
        try:
            out = fn(m)
        except Exception as e:
            ctx.violation("helper-raised-on-other", f"{nm} on {tag} message {m.identity}: {type(e).__name__}: {e}",
                          dict(params, fn=nm))
            return
        if out:
            ctx.violation("helper-truthy-on-other", f"{nm} on {tag} message {m.identity} returned {str(out)[:80]}",
                          dict(params, fn=nm))
            return
    ctx.hit("other_checked")
    num = (payload[0] << 4) | (payload[1] >> 4)
    if 1070 <= num <= 1229 and num not in refmsm.MSM_NUMBERS:
        ctx.hit("reserved_msm_numbers_checked")
    ctx.case(payload + b"other", True)


def run(ctx):
    rng = ctx.rng
    ids = [i for i in refmodel.identities() if refmodel.reachable(i)]
    for k, identity in enumerate(ids):
        if not ctx.mine(k):
            continue
        if refmodel.is_msm_identity(identity):
            for j in range(600 if ctx.quick else 12000):
                seedtag = rng.getrandbits(40)
                ms = refmodel.MSTRATS[(j + k) % len(refmodel.MSTRATS)]  # (the first shape seen differs per identity)
                force = None
                if j % 10 == 9:
                    force = {"DF394": (1 << 64) - 1, "DF395": 1 << rng.randrange(32), "DF396": (1 << 64) - 1}
                enc = refmodel.build(identity, random.Random(seedtag), "random", "small", ms, force=force)
                par = {"kind": "msm", "identity": identity, "seedtag": seedtag, "mstrat": ms, "payload": enc.payload.hex()}
                first = rng.choice((1, 2))
                check_msm(ctx, identity, enc, first, par)
                if j % 2:  # the same payload under the other option right afterwards
                    check_msm(ctx, identity, enc, 3 - first, par)
                if j % 5 == 2:
                    # another frame of the SAME station and epoch (an epoch split over several frames) right afterwards
                    keep = {k_: int(v_) for k_, v_ in enc.expected_dict().items()
                            if k_ in ("DF003", refmsm.EPOCH_FIELD[identity[:3]], "DF416") and isinstance(v_, int)}
                    try:
                        enc_b = refmodel.build(identity, random.Random(seedtag + 7), "random", "small",
                                               refmodel.MSTRATS[(j + k + 3) % len(refmodel.MSTRATS)], force=keep)
                    except (RuntimeError, refmodel.DefinitionError, KeyError):
                        enc_b = None
                    if enc_b is not None and enc_b.payload != enc.payload:
                        check_msm(ctx, identity, enc_b, first, dict(par, payload=enc_b.payload.hex(), after=enc.payload.hex()))
                        ctx.hit("same_station_and_epoch_pairs")
        elif identity == "4076_201":
            pass
        else:
            for j in range(20 if ctx.quick else 200):
                try:
                    enc = refmodel.build(identity, rng, "random", "small")
                except refmodel.DefinitionError:
                    break
                check_other(ctx, enc.payload, "defined", {"kind": "other", "payload": enc.payload.hex()})
    # frames from the repository's recorded logs (realistic constellations, epochs, text)
    from vf import common

    for k_, (name_, fr_) in enumerate(common.recorded_frames()):
        if not ctx.mine(k_):
            continue
        pl_ = fr_[3:-3]
        ident_ = common.expected_identity(pl_)
        par = {"kind": "recorded", "payload": pl_.hex(), "identity": ident_}
        try:
            enc_ = refmodel.decode(ident_, pl_) if ident_ in ids else None
        except Exception:
            enc_ = None
        if enc_ is not None and refmodel.is_msm_identity(ident_):
            check_msm(ctx, ident_, enc_, 1, par)
            check_msm(ctx, ident_, enc_, 2, par)
        elif enc_ is not None and ident_ == "4076_201":
            check_harm(ctx, enc_, par)
        else:
            check_other(ctx, pl_, "recorded", par)
        ctx.hit("recorded_frames_checked")
    # 4076_201 over all (N, M <= N) and layer counts; divided between workers
    combos = [(n, m) for n in range(1, 17) for m in range(1, n + 1)]
    for idx, (n, m) in enumerate(combos):
        if not ctx.mine(idx):
            continue
        for layers in (((1, 2, 3, 4) if n <= 7 else (1, 2)) if ctx.quick else (1, 2, 3, 4)):
            seedtag = rng.getrandbits(40)
            force = {"IDF035": layers - 1}
            for li in range(1, layers + 1):
                force[f"IDF037_{li:02d}"] = n - 1
                force[f"IDF038_{li:02d}"] = m - 1
            try:
                enc = refmodel.build("4076_201", random.Random(seedtag), "random", "small", force=force)
            except (RuntimeError, refmodel.DefinitionError, KeyError):
                continue
            if len(enc.meta.get("layers", [])) != layers:
                continue  # did not fit 1023 bytes with that many layers
            check_harm(ctx, enc, {"kind": "harm", "payload": enc.payload.hex()})
            if layers >= 2:
                # two layers of the SAME height (what keys a result by height collapses them)
                f3 = dict(force)
                f3["IDF036_01"] = f3["IDF036_02"] = rng.getrandbits(8)
                try:
                    enc3 = refmodel.build("4076_201", random.Random(seedtag + 2), "random", "small", force=f3)
                except (RuntimeError, refmodel.DefinitionError, KeyError):
                    enc3 = None
                if enc3 is not None and len(enc3.meta.get("layers", [])) == layers:
                    check_harm(ctx, enc3, {"kind": "harm", "payload": enc3.payload.hex()})
                    ctx.hit("harm_equal_heights")
            if layers <= 2:
                # a re-issued model: SAME epoch / IOD / provider / solution / layer shape, other coefficients, parsed right
                # after the first (whose message object has been freed by then)
                f2 = dict(force)
                for k_ in ("IDF003", "IDF004", "IDF005", "IDF006", "IDF007", "IDF008", "IDF009"):
                    if k_ in enc.expected_dict():
                        f2[k_] = int(enc.expected_dict()[k_]) if isinstance(enc.expected_dict()[k_], (int, bool)) else None
                f2 = {a: b for a, b in f2.items() if b is not None}
                try:
                    enc2 = refmodel.build("4076_201", random.Random(seedtag + 1), "random", "small", force=f2)
                except (RuntimeError, refmodel.DefinitionError, KeyError):
                    enc2 = None
                if enc2 is not None and len(enc2.meta.get("layers", [])) == layers and enc2.payload != enc.payload:
                    check_harm(ctx, enc2, {"kind": "harm", "payload": enc2.payload.hex(), "after": enc.payload.hex()})
                    ctx.hit("harm_reissued_model_pairs")
    # helper vs the message's own flat attributes for arbitrary degree / order fields
    for _ in range(ctx.n(600, 20000)):
        nl = rng.randint(1, 3)
        check_harm_flat(ctx, [(rng.randint(0, 5), rng.randint(0, 7)) for _ in range(nl)], rng.getrandbits(40))
    # stubs of all 4096 numbers
    for num in range(4096):
        if not ctx.mine(num):
            continue
        p = streams.header_bytes(num) + bytes(rng.getrandbits(8) for _ in range(rng.choice((0, 1, 5, 30))))
        if num == 4076:
            p = streams.header_bytes(4076, rng.getrandbits(8)) + b"\x00" * 4
        check_other(ctx, p, "stub", {"kind": "other", "payload": p.hex()})
    ctx.sample({"helpers": ["parse_msm", "parse_4076_201"], "harmonic_combinations": len(combos)})


def replay(ctx, p):
    payload = bytes.fromhex(p["payload"])
    if p["kind"] == "recorded":
        ident = p.get("identity")
        if ident and refmodel.is_msm_identity(ident):
            enc = refmodel.decode(ident, payload)
            check_msm(ctx, ident, enc, 1, p)
            check_msm(ctx, ident, enc, 2, p)
        elif ident == "4076_201":
            check_harm(ctx, refmodel.decode(ident, payload), p)
        else:
            check_other(ctx, payload, "replay", p)
        return
    if p["kind"] == "msm":
        enc = refmodel.decode(p["identity"], payload)
        check_msm(ctx, p["identity"], enc, 1, p)
    elif p["kind"] == "harmflat":
        check_harm_flat(ctx, [tuple(x) for x in p["layers"]], p["seedtag"])
    elif p["kind"] == "harm":
        if p.get("after"):
            check_harm(ctx, refmodel.decode("4076_201", bytes.fromhex(p["after"])), {k: v for k, v in p.items() if k != "after"})
        check_harm(ctx, refmodel.decode("4076_201", payload), p)
    else:
        check_other(ctx, payload, "replay", p)
