"""C14 - Parsed messages are immutable.

Exception-class + before/after snapshot monitor around every assignment attempt on constructed
messages (plain setattr and augmented assignment).
"""

import random

from vf import refmodel, streams

LEVEL = "exploration"
RULE = (
    "case = (message of any defined identity / unknown stub / string-bearing / MSM type, sequence of 1..50 assignment "
    "attempts). Names: EVERY key of the message's __dict__ (public fields, derived NSat/PRN.., private _payload, "
    "_immutable, _satmap...), the properties payload/identity/ismsm, fresh names, names of other types' fields; values "
    "of several types incl. the current value; plain setattr and augmented assignment. Each attempt must raise "
    "RTCMMessageError and leave (payload, identity, attribute dict, str, repr, serialize()) unchanged. "
    "distinct = blake2b(payload, attempted names); non-trivial = the sequence contains an existing and a fresh name"
)
RULE += (
    ' Also: messages obtained from the constructor, the static parser, file and socket readers; real'
    ' in-place augmented assignment on payload; failing constructions and serialisations in between;'
    ' payloads > 65535 bytes; string form taken before and after serialize(); fresh names with format'
    ' directives, braces, quotes, newline, the empty string; a threaded scenario.'
)
RULE += (
    " Also: messages with whole surplus bytes behind the last field."
)
ASSUMPTIONS = ["assignment means setattr / augmented assignment through the object's own __setattr__ "
               "(object.__setattr__ and __dict__ poking bypass any Python class and are out of scope)"]
GATES = ["messages_with_surplus_bytes", "attempts", "existing_public", "existing_private", "property_names", "fresh_names", "augmented",
         "unknown_stub_messages", "msm_messages", "string_messages", "oversize_messages", "threaded_cases",
         "threaded_switches", "via_constructor", "via_static_parser", "via_reader", "via_socket_reader",
         "failed_constructions_between"]

FRESH = ("foo", "DF9999", "newattr", "x", "Payload", "IDF999", "NSatellites", "identity_", "a_01", "DF002_01",
         # names that are awkward inside an error text (setattr accepts any string): format directives, braces, quotes
         "DF%03d", "load%", "%s", "{0}", "{name}", "a'b", 'a"b', "back\\slash", "new\nline", "", "é",
         # names of the form __x__ (tooling hooks, and the object's own machinery)
         "__orig_class__", "__wrapped__", "__x__", "__doc__", "__dict__", "__class__", "__slots__", "__weakref__")
VALUES = (0, 1, -1, 3.5, "x", "", None, b"\x00", [], {}, True, 2**70)


def snapshot(m):
    """Observable state: payload, identity, PUBLIC attribute values, string form, repr, serialised bytes.
    Private slots are deliberately left out (a memoised str()/serialize() may legitimately add one)."""
    s0 = str(m)  # string form BEFORE serialising in this snapshot ...
    try:
        ser = m.serialize()
    except Exception as e:  # e.g. payload too long for the 16-bit length: part of the observable state too
        ser = ("raises", type(e).__name__)
    s_, r_ = str(m), repr(m)  # ... and after: all string forms ever observed must be one and the same
    d = {k: v for k, v in m.__dict__.items() if not k.startswith("_")}
    return (m.payload, m.identity, tuple(d.items()), (s0, s_), r_, ser, m.ismsm)


def snap_equal(a, b):
    if len({a[3][0], a[3][1], b[3][0], b[3][1]}) != 1:
        return False
    if a[0] != b[0] or a[1] != b[1] or a[4:] != b[4:] or len(a[2]) != len(b[2]):
        return False
    for (k1, v1), (k2, v2) in zip(a[2], b[2]):
        if k1 != k2:
            return False
        if v1 is v2:
            continue
        try:
            if v1 != v2:
                return False
        except Exception:
            return False
    return True


def run_case(ctx, payload, labelmsm, seedtag, nattempts, tag):
    from pyrtcm import RTCMMessage
    from pyrtcm.exceptions import RTCMMessageError

    rng = random.Random(seedtag)
    params = {"payload": payload.hex(), "labelmsm": labelmsm, "seedtag": seedtag, "n": nattempts, "tag": tag}
    try:
        how = seedtag % 3 if 2 <= len(payload) <= 1023 else 0
        if how == 0 and seedtag % 11 == 3 and len(payload) >= 2:
            # a user's subclass that only adapts the constructor (takes a whole frame): its instances are messages too
            from vf import refcrc as _rc

            class FrameMessage(RTCMMessage):
                def __init__(self, frame, **kw):
                    super().__init__(payload=frame[3:-3], **kw)

            m = FrameMessage(_rc.frame(payload) if len(payload) <= 1023 else b"\xd3\x00\x00" + payload + b"\x00\x00\x00",
                             labelmsm=labelmsm)
            ctx.hit("user_subclass_instances")
        elif how == 0:
            if seedtag % 7 == 0:
                # a station message repeats verbatim for hours: the message under test is the 40th identical construction
                for _ in range(39):
                    RTCMMessage(payload=payload, labelmsm=labelmsm)
                ctx.hit("after_39_identical_constructions")
            m = RTCMMessage(payload=payload, labelmsm=labelmsm)
        elif how == 1:  # message obtained from the static frame parser
            from pyrtcm import RTCMReader

            from vf import refcrc

            m = RTCMReader.parse(refcrc.frame(payload), labelmsm=labelmsm)
        else:  # message obtained from a stream reader (file-like or real-socket subclass)
            import io

            from pyrtcm import RTCMReader

            from vf import doubles, refcrc

            fr = refcrc.frame(payload)
            if seedtag % 2:
                sock = doubles.ScriptedSocket(fr, [max(1, len(fr) // 2), 3])
                try:
                    m = next(iter(RTCMReader(sock, labelmsm=labelmsm, quitonerror=2)))[1]
                finally:
                    sock.close()
                ctx.hit("via_socket_reader")
            else:
                m = next(iter(RTCMReader(io.BytesIO(fr), labelmsm=labelmsm, quitonerror=2)))[1]
        ctx.hit(("via_constructor", "via_static_parser", "via_reader")[how])
    except Exception:
        ctx.hit("unparseable_skipped")
        return
    if seedtag % 5 == 1:
        # the message under test is a COPY of the constructed one (copy / deepcopy / pickle round trip): where the
        # library lets messages be copied at all, the copy is a message like any other
        import copy
        import pickle

        try:
            clone = (copy.copy, copy.deepcopy, lambda x: pickle.loads(pickle.dumps(x)))[(seedtag // 5) % 3](m)
        except Exception:
            clone = None
            ctx.hit("copy_not_supported(skipped)")
        if clone is not None:
            if snapshot(clone) != snapshot(m):
                ctx.hit("copy_not_faithful(skipped)")  # (no property speaks about what a copy looks like)
            else:
                m = clone
                ctx.hit("copies_attacked")
    before = snapshot(m)
    existing = list(m.__dict__)
    pub = [k for k in existing if not k.startswith("_")]
    priv = [k for k in existing if k.startswith("_")]
    tried = []
    for a in range(nattempts):
        kind = rng.choice(("pub", "pub", "priv", "prop", "fresh", "other", "aug", "all"))
        if kind == "all" and a == 0:
            names = existing + ["payload", "identity", "ismsm"]
        elif kind == "pub" and pub:
            names = [rng.choice(pub)]
        elif kind == "priv" and priv:
            names = [rng.choice(priv)]
        elif kind == "prop":
            names = [rng.choice(("payload", "identity", "ismsm"))]
        elif kind == "other":
            names = [rng.choice(("DF025", "IDF011_01", "DF405_03", "NCell", "PRN_01", "DF563", "CELLSIG_02"))]
        elif kind == "aug" and pub:
            names = [rng.choice(pub)]
        else:
            names = [rng.choice(FRESH)]
            kind = "fresh"
        for name in names:
            val = rng.choice(VALUES) if rng.random() < 0.8 else getattr(m, name, 0)
            tried.append(name)
            if rng.random() < 0.15:  # a construction that FAILS in between must not unlock existing messages
                for badp in (b"", None, payload[:3] if len(payload) > 4 else b"\x3e"):
                    try:
                        RTCMMessage(payload=badp)
                    except Exception:
                        pass
                ctx.hit("failed_constructions_between")
            try:
                if kind == "aug":
                    import operator

                    # (the buffer-holding private attribute is whatever this tree calls it: taken from the object)
                    bufpriv = [k for k in priv if isinstance(m.__dict__.get(k), (bytes, bytearray, memoryview))]
                    name = rng.choice([name, "payload"] + bufpriv[:1])
                    cur = getattr(m, name)
                    ctx.hit("augmented")
                    # what `msg.name += x` does: in-place add on the current value, then assignment
                    inc = cur if isinstance(cur, (int, float, str)) else (b"\x00" if isinstance(cur, (bytes, bytearray)) else None)
                    new_ = operator.iadd(cur, inc) if inc is not None else cur
                    setattr(m, name, new_)
                else:
                    setattr(m, name, val)
                ctx.violation("assignment-accepted", f"{tag}: setattr(msg, {name!r}, {val!r}) returned normally "
                              f"({'existing' if name in existing else 'new'} name)", dict(params, name=name))
                return
            except RTCMMessageError:
                pass
            except Exception as e:
                ctx.violation("assignment-wrong-error", f"{tag}: setattr(msg, {name!r}, ..) raised {type(e).__name__}: "
                              f"{e}", dict(params, name=name))
                return
            ctx.hit("attempts")
            if name in ("payload", "identity", "ismsm"):
                ctx.hit("property_names")
            elif name in pub:
                ctx.hit("existing_public")
            elif name in priv:
                ctx.hit("existing_private")
            else:
                ctx.hit("fresh_names")
            after = snapshot(m)
            if not snap_equal(before, after):
                what = [i for i, (x, y) in enumerate(zip(before, after)) if x != y]
                ctx.violation("state-changed", f"{tag}: after the rejected assignment of {name!r} the message changed "
                              f"(snapshot parts {what}: 0 payload,1 identity,2 attributes,3 str,4 repr,5 serialize)",
                              dict(params, name=name))
                return
    ctx.case(payload + repr(tried).encode(), any(t in existing for t in tried) and any(t not in existing for t in tried))
    ctx.sample({"tag": tag, "payload_hex": payload[:24].hex(), "attempted": tried[:10]}, limit=2)


def threaded_case(ctx, payload, seedtag, tag):
    """Assignment attempts from a second thread while the first keeps calling str()/repr()/serialize()
    (first, uncached calls included), with forced switches inside the library."""
    import sys
    import threading

    from pyrtcm import RTCMMessage
    from pyrtcm.exceptions import RTCMMessageError

    from vf import REPO_SRC, monitors

    rng = random.Random(seedtag)
    params = {"payload": payload.hex(), "seedtag": seedtag, "tag": tag, "threaded": True}
    try:
        msgs = [RTCMMessage(payload=payload) for _ in range(6)]
    except Exception:
        return
    ref = RTCMMessage(payload=payload)
    before = snapshot(ref)
    names = [k for k in ref.__dict__] + list(FRESH[:4])
    accepted = []
    wrong = []
    stop = threading.Event()

    def reader():
        for m in msgs:  # first (uncached) calls happen while the writer is active
            for _ in range(3):
                str(m), repr(m)
                try:
                    m.serialize()
                except Exception:
                    pass
        stop.set()

    def writer():
        r = random.Random(seedtag + 1)
        while not stop.is_set():
            m = r.choice(msgs)
            name = r.choice(names)
            try:
                setattr(m, name, r.choice(VALUES))
                accepted.append(name)
            except RTCMMessageError:
                pass
            except Exception as e:
                wrong.append((name, type(e).__name__))

    old = sys.getswitchinterval()
    sys.setswitchinterval(1e-6)
    inj = monitors.YieldInjector(REPO_SRC, rng, prob=0.05)
    inj.start()
    try:
        t1, t2 = threading.Thread(target=reader), threading.Thread(target=writer)
        t2.start()
        t1.start()
        t1.join()
        stop.set()
        t2.join()
    finally:
        inj.stop()
        sys.setswitchinterval(old)
    ctx.hit("threaded_cases")
    ctx.hit("threaded_switches", inj.switches)
    if accepted:
        ctx.violation("assignment-accepted", f"{tag}: {len(accepted)} assignments from a second thread were accepted "
                      f"while the first thread called str()/serialize() (e.g. {accepted[:3]})", params)
        return
    if wrong:
        ctx.violation("assignment-wrong-error", f"{tag}: concurrent assignment raised {wrong[0]}", params)
        return
    for m in msgs:
        if not snap_equal(before, snapshot(m)):
            ctx.violation("state-changed", f"{tag}: message changed under concurrent assignment attempts", params)
            return
    ctx.case(payload + b"|threads", True)


def run(ctx):
    rng = ctx.rng
    # oversize payloads (only constructible directly): serialize() cannot frame them, assignment must still fail
    for _ in range(2 if ctx.quick else 20):
        big = streams.rand_unknown_payload(rng, rng.choice((65536, 70000, 1024, 2000)))
        run_case(ctx, big, 1, rng.getrandbits(40), rng.choice((3, 10)), "oversize")
        ctx.hit("oversize_messages")
    ids = [i for i in refmodel.identities() if refmodel.reachable(i)]
    for k, identity in enumerate(ids):
        if not ctx.mine(k):
            continue
        for j in range(40 if ctx.quick else 600):
            try:
                enc = refmodel.build(identity, rng, rng.choice(refmodel.VSTRATS), rng.choice(("small", "one", "zero")),
                                     rng.choice(refmodel.MSTRATS))
            except refmodel.DefinitionError:
                break
            lm = rng.choice((1, 2))
            pl_ = enc.payload
            if j % 4 == 1:
                # whole surplus bytes behind the last field (zero fill, one set bit, arbitrary bytes): still a message
                pl_ = pl_ + rng.choice((b"\x01", b"\x00", b"\x80", b"\xff\xff", b"\x00\x00\x01",
                                        bytes(rng.getrandbits(8) for _ in range(rng.randint(1, 6)))))
                ctx.hit("messages_with_surplus_bytes")
            run_case(ctx, pl_, lm, rng.getrandbits(40), rng.choice((1, 3, 10, 50)), identity)
            if refmodel.is_msm_identity(identity):
                ctx.hit("msm_messages")
            if identity in ("1029", "1300", "1302", "1007", "1008", "1033"):
                ctx.hit("string_messages")
    for _ in range(ctx.n(4000, 60000)):
        run_case(ctx, streams.rand_unknown_payload(rng), 1, rng.getrandbits(40), rng.choice((1, 5, 20)), "unknown")
        ctx.hit("unknown_stub_messages")
    for _ in range(ctx.n(64, 1600)):
        pl = streams.rand_defined_payload(rng) if rng.random() < 0.8 else streams.rand_unknown_payload(rng)
        threaded_case(ctx, pl, rng.getrandbits(40), "threads")


def replay(ctx, p):
    if p.get("threaded"):
        threaded_case(ctx, bytes.fromhex(p["payload"]), p["seedtag"], p["tag"])
        return
    run_case(ctx, bytes.fromhex(p["payload"]), p["labelmsm"], p["seedtag"], p["n"], p["tag"])
