"""C15 - Identity is the transmitted message number; unknown types are preserved.

Exhaustive enumeration of the 12-bit number space and of the 8-bit 4076 sub-type space with own
bit arithmetic as the oracle (pinned list of the 49 implemented MSM numbers).
"""

from vf import refcrc, refmodel, refmsm, streams

LEVEL = "exploration"
RULE = (
    "case = (message number 0..4095 [x sub-type 0..255 for 4076], remaining payload bytes): ALL 4096 numbers x tails "
    "{header only, random 1..40 bytes, maximum 1023-byte payload}, ALL 256 sub-types x tails; implemented identities "
    "additionally with reference bodies so that the message-number field is decoded. Checked: identity string, DF002, "
    "no error + full payload + identical re-serialisation for numbers without a definition, ismsm classification. "
    "distinct = blake2b(payload); non-trivial = payload longer than its identity header. The header space is enumerated "
    "completely (exhaustive: true for the (number, sub-type) space, not for tails)"
)
RULE += (
    ' Also: payloads as bytearray / subclass / memoryview; bits behind the number all ones / all zeros;'
    ' frames read back through a reader (CRC-colliding neighbours, frames used as payloads, a stream that'
    ' pauses once between frames and is iterated again).'
)
ASSUMPTIONS = ["the set of implemented identities is read from the repository's tables (as data); the 49 MSM numbers "
               "and the block 1070-1229 are pinned"]
GATES = ["numbers_checked", "subtypes_checked", "stubs_checked", "df002_checked", "ismsm_true_checked",
         "ismsm_false_checked", "reader_frames_checked", "collider_pairs", "frame_as_payload", "reader_resumed_after_pause"]


def check(ctx, payload, expect_id, defined, full_body, rep=None):
    from pyrtcm import RTCMMessage

    num = (payload[0] << 4) | (payload[1] >> 4)
    if len(payload) >= 4 and payload[0] == 0:
        # a two-byte runt whose bits are the NEXT bits of this payload is offered first (and refused or stubbed): what
        # a definition lookup remembers about one payload must not be found again under another
        for runt in (payload[1:3], payload[:2]):
            try:
                RTCMMessage(payload=runt)
            except Exception:
                pass
        ctx.hit("runt_neighbours_first")
    rep = rep or streams.pick_rep(ctx.rng, 0.7)  # the same bytes as bytes / bytearray / subclass / memoryview
    ctx.hit("rep:" + rep)
    params = {"payload": payload.hex(), "expect": expect_id, "defined": defined, "rep": rep}
    try:
        m = RTCMMessage(payload=streams.as_rep(rep, payload))
    except Exception as e:
        if defined and not full_body:
            ctx.hit("defined_with_arbitrary_tail_rejected(ok)")
            return
        ctx.violation("unknown-number-raised" if not defined else "reference-body-rejected",
                      f"number {expect_id} ({'defined' if defined else 'no definition'}), {len(payload)}-byte payload: "
                      f"{type(e).__name__}: {str(e)[:160]}", params)
        return
    if m.identity != expect_id:
        ctx.violation("identity-wrong", f"identity {m.identity!r} for transmitted number {expect_id!r} "
                      f"(payload {payload[:4].hex()})", params)
        return
    if defined:
        df = getattr(m, "DF002", None)
        if df != num:
            ctx.violation("df002-wrong", f"{expect_id}: decoded message-number field DF002={df!r}, transmitted {num}",
                          params)
            return
        ctx.hit("df002_checked")
    else:
        if bytes(m.payload) != payload:
            ctx.violation("stub-payload-lost", f"{expect_id}: stub keeps {len(m.payload)} of {len(payload)} payload bytes",
                          params)
            return
        if m.serialize() != refcrc.frame(payload):
            ctx.violation("stub-serialize-differs", f"{expect_id}: stub does not serialise back to the same frame", params)
            return
        ctx.hit("stubs_checked")
    try:
        is_msm = m.ismsm
    except Exception as e:
        ctx.violation("ismsm-raised", f"{expect_id}: reading ismsm raised {type(e).__name__}: {e}", params)
        return
    if num in refmsm.MSM_NUMBERS:
        if is_msm is not True:
            ctx.violation("ismsm-false-for-msm", f"{expect_id}: ismsm={is_msm!r} for an implemented MSM number", params)
            return
        ctx.hit("ismsm_true_checked")
    elif not 1070 <= num <= 1229:
        if is_msm:
            ctx.violation("ismsm-true-outside-block", f"{expect_id}: ismsm={is_msm!r} outside 1070-1229", params)
            return
        ctx.hit("ismsm_false_checked")
    ctx.case(payload, len(payload) > (3 if num == 4076 else 2))


def reader_case(ctx, payloads):
    """The same identity rules for messages that come out of a stream reader (frames back to back)."""
    import io

    from pyrtcm import RTCMReader

    defs, _ = refmodel.tables()
    from vf import doubles

    data = b"".join(refcrc.frame(p) for p in payloads)
    params = {"reader": [p.hex() for p in payloads]}
    # the stream pauses once between two frames (growing file / timeout); the consumer iterates the same reader again
    bounds, off = [], 0
    for p in payloads[:-1]:
        off += len(p) + 6
        bounds.append(off)
    pauses = [bounds[len(data) % len(bounds)]] if bounds and len(data) % 3 == 0 else []
    stream = doubles.RecordingStream(data, budget=4 * len(data) + 64, pauses=pauses)
    try:
        rdr = RTCMReader(stream, quitonerror=0)
        got = []
        for _ in range(len(pauses) + 1):
            got += [(bytes(raw), m) for raw, m in rdr]
        if pauses:
            ctx.hit("reader_resumed_after_pause")
    except Exception as e:
        ctx.violation("reader-raised", f"{type(e).__name__}: {e}", params)
        return
    want = [p for p in payloads if common_identity(p) is not None and (common_identity(p) not in defs)]
    stubs = [(raw, m) for raw, m in got if common_identity(raw[3:-3]) not in defs]
    if [raw[3:-3] for raw, _ in stubs] != want:
        ctx.violation("reader-stub-lost", f"reader returned {len(stubs)} of {len(want)} frames with undefined numbers",
                      params)
        return
    for raw, m in got:
        exp = common_identity(raw[3:-3])
        if m.identity != exp:
            ctx.violation("identity-wrong", f"reader: identity {m.identity!r} for a frame transmitting {exp!r} "
                          f"(payload {raw[3:8].hex()}..)", params)
            return
        if exp not in defs and (m.payload != raw[3:-3] or m.serialize() != raw):
            ctx.violation("stub-payload-lost", f"reader: stub of {exp} does not keep / re-serialise its frame", params)
            return
    ctx.hit("reader_frames_checked", len(got))
    ctx.case(data, True)


def common_identity(p):
    from vf import common

    return common.expected_identity(p)


def collider_top(frame, rng):
    """Valid frame with the same CRC trailer whose MESSAGE NUMBER differs (generator pattern xor-ed
    into the first payload bytes)."""
    nb = (len(frame) - 3) * 8
    t = rng.randint(24, 35)  # MSB-first position of the pattern's top bit: inside the 12 number bits
    shift = nb - t - 25
    if shift < 0:
        return None
    v = int.from_bytes(frame[:-3], "big") ^ (refcrc.POLY << shift)
    out = v.to_bytes(len(frame) - 3, "big") + frame[-3:]
    return out if refcrc.wellformed(out) is None else None


def long_one_number(ctx):
    import io

    from pyrtcm import RTCMReader

    frs = [refcrc.frame(bytes([0xFF, 0xE0, i & 0xFF, i >> 8])) for i in range(256)]
    n_ = 70000
    try:
        got = sum(1 for raw, m in RTCMReader(io.BytesIO(b"".join(frs[i % 256] for i in range(n_))), quitonerror=0)
                  if m.identity == "4094" and m.payload == raw[3:-3])
    except Exception as e:
        got = f"{type(e).__name__}: {e}"
    if got != n_:
        ctx.violation("reader-stub-lost", f"{n_} frames of the undefined number 4094 through one reader: {got} stubs "
                      f"returned", {"long": "many-4094"})
        return False
    ctx.hit("long_run_one_number")
    return True


def long_foreign(ctx, seed):
    import io
    import random

    from pyrtcm import RTCMReader

    rng = random.Random(seed)
    mid = b"".join(streams.nmea(rng, 12) if rng.random() < 0.6 else streams.ubx(rng, 8) for _ in range(2400))
    fr = refcrc.frame(streams.rand_unknown_payload(rng, 12))
    try:
        got = [bytes(raw) for raw, m in RTCMReader(io.BytesIO(mid + fr), quitonerror=0)]
    except Exception as e:
        got = f"{type(e).__name__}: {e}"
    if got != [fr]:
        ctx.violation("reader-stub-lost", f"an undefined-number frame behind 2400 NMEA / UBX items: reader returned "
                      f"{got if isinstance(got, str) else len(got)}", {"long": "foreign-run", "seed": seed})
        return False
    ctx.hit("long_foreign_run")
    return True


def run(ctx):
    rng = ctx.rng
    defs, _ = refmodel.tables()
    # messages out of a reader: random stubs, CRC-colliding neighbours, frames used as payloads
    for _ in range(ctx.n(4000, 20000)):
        pls = []
        for _ in range(rng.randint(2, 6)):
            p = streams.rand_unknown_payload(rng, rng.choice((2, 4, 9, 30)))
            if len(p) >= 6 and rng.random() < 0.6:
                c = collider_top(refcrc.frame(p), rng)
                if c is not None and common_identity(c[3:-3]) not in defs and common_identity(c[3:-3]) is not None:
                    pls += [p, c[3:-3]]
                    ctx.hit("collider_pairs")
                    continue
            pls.append(p)
        reader_case(ctx, pls)
    # stubs whose frame checksum has a chosen value (all zero, all ones, leading zero byte ...)
    for _ in range(ctx.n(20, 400)):
        for t in streams.STEER_TARGETS[:8]:
            base = streams.rand_unknown_payload(rng, rng.randint(2, 30))
            p = streams.steer_payload(base, t)
            check(ctx, p, str((p[0] << 4) | (p[1] >> 4)), False, False)
            ctx.hit("steered_checksum_stubs")
    # a complete valid frame used AS a payload (numbers 0xD30..0xD33): must stay an opaque stub
    for _ in range(ctx.n(2000, 8000)):
        inner = streams.rand_defined_payload(rng) if rng.random() < 0.5 else streams.rand_unknown_payload(rng, rng.randint(2, 40))
        p = refcrc.frame(inner)
        if len(p) <= 1023:
            check(ctx, p, str((p[0] << 4) | (p[1] >> 4)), False, False)
            reader_case(ctx, [p, streams.rand_unknown_payload(rng, 5)])
            ctx.hit("frame_as_payload")
    # long runs through ONE reader: tens of thousands of frames of one undefined number; thousands of foreign items
    # before an undefined frame
    if ctx.worker % 4 == 0 or not ctx.quick:
        if not long_one_number(ctx):
            return
    if ctx.worker % 4 == 1 or not ctx.quick:
        if not long_foreign(ctx, rng.getrandbits(32)):
            return
    for num in range(4096):
        if not ctx.mine(num):
            continue
        if num == 4076:
            continue
        ident = str(num)
        defined = ident in defs
        hdr = streams.header_bytes(num)
        tails = [b"", bytes(rng.getrandbits(8) for _ in range(rng.randint(1, 40))),
                 bytes(rng.getrandbits(8) for _ in range(1021)),
                 b"\xff" * rng.randint(5, 12), b"\x00" * rng.randint(5, 12)]  # saturated / empty bits behind the number
        if not ctx.quick:
            tails += [bytes(rng.getrandbits(8) for _ in range(rng.randint(1, 200))) for _ in range(40)]
        for t in tails:
            low = rng.getrandbits(4) if t else 0
            if t[:1] == b"\xff":
                low = 0x0F
            elif t[:1] == b"\x00" and len(t) < 20:
                low = 0
            p = bytes([hdr[0], hdr[1] | low]) + t
            check(ctx, p, ident, defined, False)
        if defined:
            for _ in range(8 if ctx.quick else 30):
                try:
                    enc = refmodel.build(ident, rng, rng.choice(refmodel.VSTRATS), rng.choice(refmodel.CSTRATS),
                                         rng.choice(refmodel.MSTRATS))
                except refmodel.DefinitionError:
                    break
                check(ctx, enc.payload, ident, True, True)
        ctx.hit("numbers_checked")
    for sub in range(256):
        if not ctx.mine(sub):
            continue
        ident = f"4076_{sub:03d}"
        defined = ident in defs
        for _ in range(3 if ctx.quick else 12):
            ver = rng.getrandbits(3)
            v = (4076 << 12) | (ver << 9) | (sub << 1) | rng.getrandbits(1)
            t = rng.choice((b"", bytes(rng.getrandbits(8) for _ in range(rng.randint(1, 40))),
                            bytes(rng.getrandbits(8) for _ in range(1020))))
            check(ctx, v.to_bytes(3, "big") + t, ident, defined, False)
        if defined:
            for _ in range(8 if ctx.quick else 30):
                try:
                    enc = refmodel.build(ident, rng, rng.choice(refmodel.VSTRATS), rng.choice(refmodel.CSTRATS))
                except refmodel.DefinitionError:
                    break
                check(ctx, enc.payload, ident, True, True)
        ctx.hit("subtypes_checked")
    ctx.sample({"numbers": "0..4095 (all)", "subtypes": "0..255 (all)", "example": streams.header_bytes(1077).hex()})


def finalize(tier, counters, notes):
    ok = counters.get("numbers_checked", 0) == 4095 and counters.get("subtypes_checked", 0) == 256
    return {"exhaustive": bool(ok), "exhaustive_scope": "(message number, 4076 sub-type) header space"}


def replay(ctx, p):
    if "long" in p:
        if p["long"] == "many-4094":
            long_one_number(ctx)
        else:
            long_foreign(ctx, p["seed"])
        return
    if "reader" in p:
        reader_case(ctx, [bytes.fromhex(x) for x in p["reader"]])
        return
    check(ctx, bytes.fromhex(p["payload"]), p["expect"], p["defined"], True, rep=p.get("rep", "bytes"))
