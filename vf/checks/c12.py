"""C12 - Chunked transfer decoding is independent of segmentation.

The real SocketWrapper (encoding = chunked [+ gzip | zlib | deflate]) is fed a well-formed chunked
stream through a scripted real-socket subclass under enumerated partitions into recv() results; the
bytes it delivers must equal the concatenation of the generator's chunk bodies.
"""

import itertools
import random

from vf import doubles, refchunk

LEVEL = "fault_enumeration"
RULE = (
    "case = (well-formed chunked body: 1..6 chunks of 1..40 bytes, bodies containing CR, LF, CRLF, hex digits and "
    "'0\\r\\n\\r\\n', upper/lower-case and zero-padded sizes, with/without terminating zero chunk, encodings chunked, "
    "+gzip, +zlib, +deflate; partition of the encoded stream into recv() results; bufsize; read-size pattern). "
    "Partitions: ALL 2^(L-1) for encodings of length L <= 14 (16 in thorough), ALL 1- and 2-cut partitions (3-cut in "
    "thorough) for longer ones, 1 byte at a time, random, bufsize smaller than a chunk. distinct = blake2b(encoding, "
    "partition, bufsize); non-trivial = at least one receive boundary falls strictly inside the encoded stream"
)
RULE += (
    ' Also: chunks with an empty decoded body, receive timeouts and other OSErrors between segments (every'
    ' single cut followed by one), chunks of 4097..70000 bytes.'
)
RULE += (
    " Also: compressed chunks repeating a block at 5 000..31 000 bytes distance."
)
ASSUMPTIONS = ["chunk extensions and trailers are not generated (well-formed bodies of the plain grammar)"]
GATES = ["long_distance_repeats_compressed", "partitions_checked", "exhaustive_bodies", "cut:inside-size-digits", "cut:between-size-CR-and-LF",
         "cut:before-first-data-byte", "cut:inside-data", "cut:between-data-and-CR",
         "cut:between-terminating-CR-and-LF", "cut:between-chunks", "cut:inside-zero-chunk",
         "enc:chunked", "enc:gzip", "enc:zlib", "enc:deflate", "empty_compressed_body",
         "runs_with_timeouts_between_segments", "runs_with_oserror_between_segments", "chunks_over_4096_bytes"]

ENC = {None: 1, "gzip": 1 | 2, "zlib": 1 | 4, "deflate": 1 | 8}
NASTY = (b"\r", b"\n", b"\r\n", b"0\r\n\r\n", b"5\r\n", b"a", b"F", b"\r\n\r\n", b"0", b"1f\r\n")


def make_bodies(rng, nchunks=None, maxlen=40):
    n = nchunks or rng.randint(1, 6)
    out = []
    for _ in range(n):
        ln = rng.randint(1, maxlen)
        style = rng.random()
        if style < 0.35:
            b = b"".join(rng.choice(NASTY) for _ in range(ln))[:ln]
        elif style < 0.5:
            b = bytes(rng.choice(b"0123456789abcdefABCDEF\r\n") for _ in range(ln))
        else:
            b = bytes(rng.getrandbits(8) for _ in range(ln))
        out.append(b or b"x")
    return out


def run_case(ctx, bodies, upper, terminate, how, pad, cuts, bufsize, readpat, timeouts=()):
    """timeouts: indices into `cuts`; at those receive boundaries one recv() times out before the next segment
    arrives (the caller just reads again)."""
    from pyrtcm.socketwrapper import SocketWrapper

    if how is not None and len(bodies) > 1 and (sum(len(b) for b in bodies) + len(cuts)) % 5 == 0:
        # a chunk whose DECODED body is empty (e.g. an empty compressor flush) is legal with compression
        bodies = list(bodies)
        bodies[len(bodies) // 2] = b""
        cuts = tuple(c for c in cuts if c < len(refchunk.encode(bodies, upper, terminate, how, pad)[0]))
        ctx.hit("empty_compressed_body")

    encoded, layout = refchunk.encode(bodies, upper, terminate, how, pad)
    want = b"".join(bodies)
    if refchunk.decode(encoded, how) != want:
        raise RuntimeError("harness: reference chunk codec does not round-trip")
    sizes = []
    prev = 0
    for j, c in enumerate(cuts):
        sizes.append(c - prev)
        if j in timeouts:
            # a receive timeout, or (every third one) another transient OSError, before the next segment arrives
            sizes.append("E" if (j + len(encoded)) % 3 == 0 else "T")
        prev = c
    sizes.append(len(encoded) - prev)
    if any(x in ("T", "E") for x in sizes):
        ctx.hit("runs_with_timeouts_between_segments")
    if "E" in sizes:
        ctx.hit("runs_with_oserror_between_segments")
    params = {"force": list(refchunk.FORCE) if refchunk.FORCE else None, "bodies": [b.hex() for b in bodies], "upper": upper, "terminate": terminate, "how": how, "pad": pad,
              "cuts": list(cuts), "bufsize": bufsize, "readpat": readpat, "timeouts": list(timeouts)}
    sock = doubles.ScriptedSocket(encoded, sizes, budget=4 * len(encoded) + 4 * len(sizes) + 64)
    got = bytearray()
    # (every scripted receive timeout takes 45 s of VIRTUAL time, see vf/__init__)
    try:
        try:
            w = SocketWrapper(sock, encoding=ENC[how], bufsize=bufsize)
            rr = random.Random(readpat)
            idle = 0
            # keep reading until the peer has sent everything AND three reads in a row delivered nothing (a read may
            # legitimately deliver nothing while a chunk is still incomplete or a receive timed out)
            while idle < 3 or sock._vpos < len(encoded) or sock._si < len(sock._sched):
                k = 1 if readpat == 0 else (65536 if readpat == 9 else rr.choice((1, 1, 2, 3, 7, 50)))
                if readpat == 2 and rr.random() < 0.2:
                    # the client talks while it listens (an NTRIP client sends its position now and then): what was sent
                    # has nothing to do with what is being received
                    w.write(b"$GPGGA,000000.00,0000.000,N,00000.000,E,1,08,1.0,0.0,M,0.0,M,,*00\r\n")
                    ctx.hit("writes_between_reads")
                r = w.read(k)
                if not r and k > 1:
                    r = w.read(1)
                if r:
                    got += r
                    idle = 0
                else:
                    idle += 1
        except doubles.BudgetExceeded as e:
            ctx.violation("no-progress", str(e), params)
            return False
        except Exception as e:
            ctx.violation("wrapper-raised", f"{type(e).__name__}: {e}", params)
            return False
    finally:
        sock.close()
    ctx.hit("partitions_checked")
    if bytes(got) != want:
        i = next((j for j in range(min(len(got), len(want))) if got[j] != want[j]), min(len(got), len(want)))
        classes = sorted({refchunk.cut_class(layout, c) for c in cuts})
        mech = "chunk-data-lost" if len(got) < len(want) else "chunk-data-corrupted"
        ctx.violation(mech, f"{len(bodies)} chunks ({how or 'plain'}), recv boundaries at {list(cuts)[:8]} "
                      f"({classes}), bufsize {bufsize}: delivered {len(got)} of {len(want)} bytes, first difference at "
                      f"{i}", params)
        return False
    if (len(encoded) + len(cuts)) % 3 == 0:
        # the public helper used directly, as its documentation describes: segments handed to dechunk() by the caller,
        # the returned partial chunk prepended to the next segment - whatever the wrapper's own receive size is
        s2 = doubles.ScriptedSocket(b"", [], budget=8)
        try:
            w2 = SocketWrapper(s2, encoding=ENC[how], bufsize=1 + len(encoded) % 7)
            fn = getattr(w2, "dechunk", None)
            if fn is None:
                ctx.hit("dechunk_not_public")
            else:
                out, partial, prev = bytearray(), b"", 0
                try:
                    for c in list(cuts) + [len(encoded)]:
                        chunks, partial = fn(bytes(partial) + encoded[prev:c])
                        out += chunks
                        prev = c
                except Exception as e:
                    ctx.violation("wrapper-raised", f"dechunk() called directly: {type(e).__name__}: {e}", params)
                    return False
                ctx.hit("dechunk_called_directly")
                if bytes(out) != want:
                    ctx.violation("chunk-data-lost" if len(out) < len(want) else "chunk-data-corrupted",
                                  f"dechunk() called directly on {len(cuts) + 1} segments of a {len(encoded)}-byte "
                                  f"stream ({how or 'plain'}), wrapper bufsize {1 + len(encoded) % 7}: returned "
                                  f"{len(out)} of {len(want)} bytes", params)
                    return False
        finally:
            s2.close()
    for c in cuts:
        ctx.hit("cut:" + refchunk.cut_class(layout, c))
    ctx.hit("enc:" + (how or "chunked"))
    ctx.case(encoded + repr((cuts, bufsize, how)).encode(), len(cuts) > 0)
    return True


def run(ctx):
    rng = ctx.rng
    hows = (None, "gzip", "zlib", "deflate")
    # (1) exhaustive partitions of short encodings (same bodies in every worker; partitions are divided)
    shared = random.Random(ctx.seed * 13 + 7)
    maxL = 14 if ctx.quick else 16
    nb = 20 if ctx.quick else 60
    done = 0
    tries = 0
    while done < nb and tries < 4000:
        tries += 1
        bodies = make_bodies(shared, shared.randint(1, 2), 3)
        upper, term = shared.random() < 0.5, shared.random() < 0.7
        enc, _ = refchunk.encode(bodies, upper, term, None, 0)
        L = len(enc)
        if L > maxL or L < 8:
            continue
        done += 1
        bufsize = shared.choice((4096, 4096, 3, 64))
        for mask in range(1 << (L - 1)):
            if mask % ctx.nworkers != ctx.worker:
                continue
            cuts = tuple(i + 1 for i in range(L - 1) if (mask >> i) & 1)
            if not run_case(ctx, bodies, upper, term, None, 0, cuts, bufsize, 0):
                return
        if ctx.worker == 0:
            ctx.hit("exhaustive_bodies")
            ctx.sample({"bodies_hex": [b.hex() for b in bodies], "encoded": enc.decode("latin-1"),
                        "partitions": 1 << (L - 1), "exhaustive": True})
    # (2) all 1-cut and 2-cut (thorough: 3-cut) partitions of longer encodings, all four encodings
    for it in range(ctx.n(320, 1600)):
        bodies = make_bodies(rng, rng.randint(2, 5), 12 if ctx.quick else 20)
        how = hows[it % 4]
        upper, term, pad = rng.random() < 0.5, rng.random() < 0.7, rng.choice((0, 0, 0, 2, 4))
        enc, _ = refchunk.encode(bodies, upper, term, how, pad)
        L = len(enc)
        bufsize = rng.choice((4096, 4096, 4096, 8, 64))
        for c in range(1, L):
            if not run_case(ctx, bodies, upper, term, how, pad, (c,), bufsize, 0):
                return
            if not run_case(ctx, bodies, upper, term, how, pad, (c,), bufsize, 0, timeouts=(0,)):
                return
        pairs = list(itertools.combinations(range(1, L), 2))
        if len(pairs) > (2500 if ctx.quick else 20000):
            pairs = rng.sample(pairs, 2500 if ctx.quick else 20000)
        for cuts in pairs:
            if not run_case(ctx, bodies, upper, term, how, pad, cuts, bufsize, rng.choice((0, 0, 1, 2))):
                return
        if not ctx.quick and L <= 70:
            for cuts in itertools.combinations(range(1, L), 3):
                if rng.random() < 0.25:
                    if not run_case(ctx, bodies, upper, term, how, pad, cuts, bufsize, 0):
                        return
        ctx.hit("one_and_two_cut_enumerations")
    # (2b) chunks far larger than any receive buffer (4097 .. 70000 bytes in one chunk), few cuts
    for it in range(ctx.n(16, 400)):
        big = bytes(rng.getrandbits(8) for _ in range(rng.choice((4097, 4200, 5000, 8193, 20000, 70000))))
        bodies = [bytes(rng.getrandbits(8) for _ in range(rng.randint(1, 30))), big,
                  bytes(rng.getrandbits(8) for _ in range(rng.randint(1, 30)))][rng.randint(0, 1):]
        g_ = it * ctx.nworkers + ctx.worker  # position in the enumeration over all workers
        how = hows[g_ % 4] if g_ % 8 < 4 else None
        upper, term = rng.random() < 0.5, rng.random() < 0.7
        enc, _ = refchunk.encode(bodies, upper, term, how, 0)
        L = len(enc)
        cuts = tuple(sorted(rng.sample(range(1, L), rng.randint(0, 4))))
        if not run_case(ctx, bodies, upper, term, how, 0, cuts, rng.choice((64, 4096, 4096, 65536)), 3):
            return
        ctx.hit("chunks_over_4096_bytes")
    # (2b') compressed chunks whose body repeats a random block at a LONG distance (5 000 .. 31 000 bytes: back-references
    # across most of a 32 KiB window), best compression and full window
    for it in range(ctx.n(32, 480)):
        g_ = it * ctx.nworkers + ctx.worker
        how = hows[1 + g_ % 3]
        blk = rng.randbytes((5000, 12000, 18000, 24000, 31000)[(g_ // 3) % 5])
        body = blk * rng.choice((2, 3)) + rng.randbytes(rng.randint(0, 40))
        refchunk.FORCE = (rng.choice((9, 6)), 15)
        try:
            bodies_ = [body] if g_ % 2 else [b"lead" * 3, body]
            enc, _ = refchunk.encode(bodies_, False, True, how, 0)
            cuts = tuple(sorted(rng.sample(range(1, len(enc)), rng.randint(0, 3))))
            if not run_case(ctx, bodies_, False, True, how, 0, cuts, rng.choice((4096, 65536)), 9):
                return
        finally:
            refchunk.FORCE = None
        ctx.hit("long_distance_repeats_compressed")
    # (2c) thorough only: single chunks of 16 MiB and more (plain, and a highly compressible body under each compression)
    if not ctx.quick and ctx.worker < 4:
        how = hows[ctx.worker % 4]
        body = (bytes(16 * 1024 * 1024 + 5) if how else rng.randbytes(0x1000000 + rng.randint(0, 3)))
        refchunk.FORCE = (9, 15)  # best compression, full window: ratios beyond 1000:1
        try:
            bodies_ = [b"ab", body, b"yz"] if how is None else [body]
            enc, _ = refchunk.encode(bodies_, False, True, how, 0)
            step = 1 << 20
            cuts = tuple(range(step, len(enc), step)) or (len(enc) // 2,)
            if not run_case(ctx, bodies_, False, True, how, 0, cuts, 65536, 9):
                return
        finally:
            refchunk.FORCE = None
        ctx.hit("chunks_of_16MiB")
    # (3) random partitions, byte-at-a-time, tiny bufsize, bigger bodies
    for it in range(ctx.n(40000, 400000)):
        bodies = make_bodies(rng, None, rng.choice((5, 40, 40, 300)))
        how = hows[it % 4]
        upper, term, pad = rng.random() < 0.5, rng.random() < 0.7, rng.choice((0, 0, 0, 3))
        enc, _ = refchunk.encode(bodies, upper, term, how, pad)
        L = len(enc)
        style = rng.random()
        if style < 0.2:
            cuts = tuple(range(1, L))
        elif style < 0.3:
            cuts = ()
        else:
            k = rng.randint(1, min(L - 1, 12))
            cuts = tuple(sorted(rng.sample(range(1, L), k)))
        bufsize = rng.choice((1, 2, 3, 5, 16, 64, 4096, 4096, 65536))
        touts = tuple(j for j in range(len(cuts)) if rng.random() < 0.3) if rng.random() < 0.3 and len(cuts) < 40 else ()
        if not run_case(ctx, bodies, upper, term, how, pad, cuts, bufsize, rng.choice((0, 1, 2, 3)), touts):
            return


def replay(ctx, p):
    refchunk.FORCE = tuple(p["force"]) if p.get("force") else None
    run_case(ctx, [bytes.fromhex(b) for b in p["bodies"]], p["upper"], p["terminate"], p["how"], p["pad"],
             tuple(p["cuts"]), p["bufsize"], p["readpat"], tuple(p.get("timeouts", ())))
