"""C11 - Socket reads are independent of how the network segments the data.

Invariant-at-a-hook monitor: a monitored subclass of the real SocketWrapper (bound into the reader's
namespace) checks after EVERY read()/readline() - a single-threaded quiescent point - that
  * len(result) <= requested,
  * a short result only happens when the scripted peer closed or timed out / failed during the call,
  * conservation: concat(results so far) + wrapper.buffer == concat(segments handed out by recv so far).
Reader level: messages under any schedule equal those under the one-segment schedule (and over a
file when line semantics coincide); with timeouts they form an in-order subsequence
(nothing duplicated or reordered; which frames survive a mid-frame timeout is not claimed).
"""

import io
import random

from vf import common, doubles, refcrc, streams
from vf.checks import c02

LEVEL = "fault_enumeration"
RULE = (
    "case = (byte stream, partition of the stream into recv() results, bufsize, sequence of read sizes / reader "
    "iteration, placement of timeouts and OS errors between receives). Schedules: 1 byte at a time, everything at once, "
    "EVERY single cut position of short streams (enumeration), EVERY single fault position between segments of short "
    "streams (enumeration), segments = bufsize and bufsize+-1, random partitions; bufsize in {1,2,3,7,64,512,4096,65536}; "
    "read sizes incl. 0, 1 and > total; thorough adds a real AF_UNIX socketpair with a feeder thread. "
    "distinct = blake2b(stream, schedule, bufsize, reads); non-trivial = at least 2 recv segments and >= 1 read "
    "spanning a segment boundary or a fault"
)
RULE += (
    ' Also: chunked-mode invariants (conservation against the decoded chunk bodies), one scripted socket'
    ' in four TLS-like (has read()), receive timeouts placed exactly BETWEEN items with the consumer'
    ' re-iterating the same reader (must equal the fault-free messages).'
)
ASSUMPTIONS = [
    "ScriptedSocket is a real socket.socket subclass whose recv(n) clips segments to n like a kernel would",
    "file/socket equality is only required for streams whose '$' lines end in CRLF (SocketWrapper.readline stops at "
    "CRLF, file readline at LF: an input-dependent difference that exists for every schedule, so not a C11 matter)",
]
GATES = ["invariant_evaluated", "reads_short_justified", "reader_runs_compared", "single_cut_enumerated",
         "single_fault_enumerated", "spanning_reads", "after_fault_reads", "chunked_invariant_evaluated",
         "aligned_timeouts_compared"]


class Monitor:
    def __init__(self):
        self.problem = None
        self.evals = 0
        self.short_ok = 0
        self.spanning = 0
        self.after_fault = 0


def make_wrapper_class(mon_holder):
    from pyrtcm.socketwrapper import SocketWrapper

    class MonitoredWrapper(SocketWrapper):
        def __init__(self, sock, *a, **kw):
            self._vf_sock = sock
            self._vf_results = bytearray()
            self._vf_depth = 0
            self._vf_mon = mon_holder[0]
            super().__init__(sock, *a, **kw)

        def _vf_check(self, what, k, result, log_before):
            mon = self._vf_mon
            sock = self._vf_sock
            if mon.problem or not isinstance(sock, doubles.ScriptedSocket):
                return
            mon.evals += 1
            events = sock.recv_log[log_before:]
            faulted = any(o in ("T", "E", 0) for _, o in events)
            if any(o in ("T", "E") for _, o in sock.recv_log[:log_before]):
                mon.after_fault += 1
            if len(events) >= 1 and not faulted and len(result) > 0:
                mon.spanning += 1
            if k is not None and len(result) > k:
                mon.problem = ("read-too-long", f"{what}({k}) returned {len(result)} bytes")
                return
            if k is not None and len(result) < k:
                if not faulted:
                    mon.problem = ("short-read-without-cause",
                                   f"{what}({k}) returned {len(result)} bytes although the peer neither closed nor "
                                   f"timed out during the call (recv outcomes {events[-4:]})")
                    return
                mon.short_ok += 1
            got = bytes(self._vf_results) + bytes(self.buffer)
            expect = _HOLDER[1] if len(_HOLDER) > 1 else None
            if expect is not None:
                # transfer-decoded stream: what was delivered so far must be a prefix of the decoded body
                if got != expect[: len(got)]:
                    mon.problem = ("conservation", f"after {what}({k}): results+buffer is not a prefix of the decoded "
                                   f"chunk bodies ({len(got)} bytes so far)")
            elif got != bytes(sock.received):
                a, b = got, bytes(sock.received)
                i = next((j for j in range(min(len(a), len(b))) if a[j] != b[j]), min(len(a), len(b)))
                mon.problem = ("conservation",
                               f"after {what}({k}): results+buffer ({len(a)} bytes) != bytes received ({len(b)} bytes); "
                               f"first difference at offset {i}: {a[i:i + 6].hex()} vs {b[i:i + 6].hex()}")

        def read(self, num):
            sock = self._vf_sock
            lb = len(sock.recv_log) if isinstance(sock, doubles.ScriptedSocket) else 0
            self._vf_depth += 1
            try:
                out = super().read(num)
            finally:
                self._vf_depth -= 1
            if self._vf_depth == 0:
                self._vf_results += out
                self._vf_check("read", num, out, lb)
            return out

        def readline(self):
            sock = self._vf_sock
            lb = len(sock.recv_log) if isinstance(sock, doubles.ScriptedSocket) else 0
            self._vf_depth += 1
            try:
                out = super().readline()
            finally:
                self._vf_depth -= 1
            if self._vf_depth == 0:
                self._vf_results += out
                self._vf_check("readline", None, out, lb)
            return out

    return MonitoredWrapper


_HOLDER = [None, None]
_CLS = None


def wrapper_class():
    global _CLS
    if _CLS is None:
        _CLS = make_wrapper_class(_HOLDER)
    return _CLS


def raw_case(ctx, data, sched, bufsize, reads, label):
    """Drive the wrapper directly with a sequence of read sizes ('L' = readline)."""
    params = {"kind": "raw", "data": data.hex(), "sched": sched, "bufsize": bufsize, "reads": reads}
    mon = Monitor()
    _HOLDER[0] = mon
    sock = doubles.ScriptedSocket(data, sched, budget=4 * len(data) + 8 * len(sched) + 4 * len(reads) + 64)
    out = bytearray()
    try:
        try:
            w = wrapper_class()(sock, encoding=0, bufsize=bufsize)
            for k in reads:
                if (len(out) + len(reads)) % 7 == 3:
                    w.write(b"$GPGGA,,,,,,0,,,,,,,,*66\r\n")  # writing does not disturb what is being received
                r = w.readline() if k == "L" else w.read(k)
                out += r
                if mon.problem:
                    break
            # drain
            idle = 0
            while not mon.problem and idle < len(sched) + 3:
                r = w.read(1)
                if r:
                    out += r
                    idle = 0
                else:
                    idle += 1
                    if sock._vpos >= len(data) and not sock._sched[sock._si:]:
                        break
        except doubles.BudgetExceeded as e:
            ctx.violation("no-progress", f"wrapper keeps calling recv: {e}", params)
            return
        except Exception as e:
            ctx.violation("wrapper-raised", f"{type(e).__name__}: {e}", params)
            return
    finally:
        sock.close()
    if mon.problem:
        ctx.violation(mon.problem[0], f"{label}: {mon.problem[1]}", params)
        return
    if bytes(out) != data[: len(out)] or (len(out) != len(data) and "E" not in sched and "T" not in sched):
        ctx.violation("stream-not-reproduced", f"{label}: reads returned {len(out)} bytes, peer sent {len(data)}; "
                      f"equal prefix: {bytes(out) == data[:len(out)]}", params)
        return
    ctx.hit("invariant_evaluated", mon.evals)
    ctx.hit("reads_short_justified", mon.short_ok)
    ctx.hit("spanning_reads", mon.spanning)
    ctx.hit("after_fault_reads", mon.after_fault)
    nseg = sum(1 for _, o in sock.recv_log if isinstance(o, int) and o > 0)
    ctx.case(data + repr((sched, bufsize, reads)).encode(), nseg >= 2 and (mon.spanning > 0 or sock.faults > 0))


def chunked_case(ctx, bodies, how, sched, bufsize, reads):
    """Same invariants with chunked (+compressed) transfer decoding switched on."""
    from vf import refchunk

    enc, _ = refchunk.encode(bodies, False, True, how, 0)
    want = b"".join(bodies)
    params = {"kind": "chunked", "bodies": [b.hex() for b in bodies], "how": how, "sched": sched, "bufsize": bufsize,
              "reads": reads}
    mon = Monitor()
    _HOLDER[0] = mon
    _HOLDER[1] = want
    sock = doubles.ScriptedSocket(enc, sched, budget=4 * len(enc) + 8 * len(sched) + 4 * len(reads) + 64)
    out = bytearray()
    flags = {None: 1, "gzip": 3, "zlib": 5, "deflate": 9}[how]
    try:
        try:
            w = wrapper_class()(sock, encoding=flags, bufsize=bufsize)
            for k in reads:
                if (len(out) + k) % 5 == 2:
                    w.write(b"$GPGGA,,,,,,0,,,,,,,,*66\r\n")  # (chunked mode: a request sent while a response is in flight)
                out += w.read(k)
                if mon.problem:
                    break
            idle = 0
            while not mon.problem and idle < len(sched) + 3:
                r = w.read(1)
                if r:
                    out += r
                    idle = 0
                else:
                    idle += 1
                    if sock._vpos >= len(enc) and not sock._sched[sock._si:]:
                        break
        except doubles.BudgetExceeded as e:
            ctx.violation("no-progress", f"chunked: {e}", params)
            return
        except Exception as e:
            ctx.violation("wrapper-raised", f"chunked: {type(e).__name__}: {e}", params)
            return
    finally:
        sock.close()
        _HOLDER[1] = None
    if mon.problem:
        ctx.violation(mon.problem[0], f"chunked({how}): {mon.problem[1]}", params)
        return
    if "T" not in sched and "E" not in sched and bytes(out) != want:
        ctx.violation("stream-not-reproduced", f"chunked({how}): reads returned {len(out)} of {len(want)} decoded bytes",
                      params)
        return
    ctx.hit("invariant_evaluated", mon.evals)
    ctx.hit("chunked_invariant_evaluated", mon.evals)
    ctx.hit("reads_short_justified", mon.short_ok)
    ctx.case(enc + repr((sched, bufsize, reads, how)).encode(), len(sched) >= 2)


def reader_frames(stream, bufsize=4096, rounds=1, mode=0):
    from pyrtcm import RTCMReader

    libs = common.lib_errors()
    rdr = RTCMReader(stream, validate=1, quitonerror=mode, bufsize=bufsize, errorhandler=(lambda e: None))
    out = []
    first = None
    for _ in range(rounds):
        n0 = len(out)
        for raw, parsed in rdr:
            out.append(bytes(raw))
        if first is None:
            first = len(out)
    return out, first


def reader_case(ctx, data, sched, bufsize, crlf_only, label, aligned=False):
    import pyrtcm.rtcmreader as RR

    params = {"kind": "reader", "data": data.hex(), "sched": sched, "bufsize": bufsize, "crlf": crlf_only,
              "aligned": aligned}
    nfaults = sum(1 for s in sched if s in ("T", "E"))
    mon = Monitor()
    _HOLDER[0] = mon
    saved = RR.SocketWrapper
    RR.SocketWrapper = wrapper_class()
    budget = 4 * len(data) + 8 * len(sched) + 64
    s1 = doubles.ScriptedSocket(data, [], budget=budget)
    s2 = doubles.ScriptedSocket(data, sched, budget=budget)
    try:
        try:
            base, _ = reader_frames(s1, 65536)
            mon2 = Monitor()
            _HOLDER[0] = mon2
            got, first = reader_frames(s2, bufsize, rounds=nfaults + 2)
        except doubles.BudgetExceeded as e:
            ctx.violation("no-progress", f"{label}: {e}", params)
            return
        except Exception as e:
            ctx.violation("reader-raised", f"{label}: {type(e).__name__}: {e}", params)
            return
    finally:
        RR.SocketWrapper = saved
        s1.close()
        s2.close()
    for m in (mon, mon2):
        if m.problem:
            ctx.violation(m.problem[0], f"{label}: {m.problem[1]}", params)
            return
    ctx.hit("invariant_evaluated", mon.evals + mon2.evals)
    ctx.hit("reads_short_justified", mon2.short_ok)
    ctx.hit("spanning_reads", mon2.spanning)
    ctx.hit("after_fault_reads", mon2.after_fault)
    if nfaults == 0:
        if got != base:
            ctx.violation("schedule-dependence", f"{label}: {len(got)} messages under the schedule vs {len(base)} "
                          f"under one segment (bufsize {bufsize}, {len(sched)} segments)", params)
            return
        if crlf_only:
            filed, _ = reader_frames(io.BytesIO(data))
            if filed != got:
                ctx.violation("file-socket-difference", f"{label}: {len(got)} messages over the socket, {len(filed)} "
                              f"over a file holding the same bytes", params)
                return
            ctx.hit("file_compared")
    elif aligned:
        # every timeout falls BETWEEN two items: nothing is in flight, so a consumer that keeps iterating the same
        # reader must end up with exactly the fault-free messages ("a timeout loses no buffered data")
        if got != base:
            ctx.violation("timeout-loses-messages", f"{label}: {nfaults} receive timeouts placed between items, the "
                          f"consumer re-iterates the same reader: {len(got)} messages vs {len(base)} without timeouts "
                          f"(bufsize {bufsize})", params)
            return
        ctx.hit("aligned_timeouts_compared")
    else:
        # in-order duplicate-free subsequence; first iteration is a prefix
        j = 0
        for f in got:
            while j < len(base) and base[j] != f:
                j += 1
            if j >= len(base):
                ctx.violation("fault-reorder-or-duplicate", f"{label}: messages with {nfaults} faults are not an in-order "
                              f"subsequence of the fault-free messages", params)
                return
            j += 1
    ctx.hit("reader_runs_compared")
    ctx.case(b"R" + data + repr((sched, bufsize)).encode(), len(sched) >= 2 or bufsize < len(data))
    if len(sched) >= 4 and got:
        ctx.sample({"stream_head_hex": data[:32].hex(), "stream_len": len(data), "schedule_head": sched[:16],
                    "bufsize": bufsize, "messages": len(got), "messages_one_segment": len(base), "faults": nfaults,
                    "invariant_evaluations_this_run": mon2.evals, "short_reads_with_cause": mon2.short_ok,
                    "reads_spanning_segments": mon2.spanning}, limit=2)


def make_data(rng, small=False, crlf=True):
    # (no foreign items QUOTING valid frames here: after a fault inside such an item a reader may resynchronise on the
    # quoted frame, which the fault-free run never returns - the subsequence oracle below does not model that)
    items = c02.make_items(rng, n=rng.randint(2, 5) if small else rng.randint(4, 14), quote=False)
    if rng.random() < 0.2:  # a sentence from a careless talker (CR CR LF, odd checksum characters) between the items
        for _try in range(8):
            line = streams.nmea(rng, 20, sloppy=True)
            if line.endswith(b"\r\n"):  # (lines that end in a bare LF are outside the file / socket comparison)
                items.insert(rng.randrange(len(items) + 1), ("nmea-sloppy", line, None))
                break
    if small:
        items = [it for it in items if len(it[1]) < 120] or items[:1]
    return b"".join(b for _, b, _ in items)


def rand_sched(rng, total, bufsize, faults=0):
    style = rng.random()
    if style < 0.15:
        sched = [1] * total
    elif style < 0.25:
        sched = []
    elif style < 0.45:
        sched = [rng.choice((bufsize, bufsize + 1, max(1, bufsize - 1))) for _ in range(total // max(1, bufsize) + 2)]
    else:
        sched = []
        left = total
        while left > 0:
            k = rng.choice((1, 1, 2, 3, 5, 8, 13, 40, 100, 700))
            sched.append(k)
            left -= k
    sched = sched[:4000]
    for _ in range(faults):
        sched.insert(rng.randrange(len(sched) + 1), rng.choice(("T", "E")))
    return sched


BUFSIZES = (1, 2, 3, 7, 64, 512, 4096, 65536)


def socketpair_case(ctx, data, sizes, bufsize):
    from pyrtcm import RTCMReader

    params = {"kind": "socketpair", "data": data.hex(), "sizes": sizes, "bufsize": bufsize}
    base, _ = reader_frames(io.BytesIO(data))
    sock, t = doubles.socketpair_feed(data, sizes, delay=0.0002)
    try:
        sock.settimeout(10)
        got, _ = reader_frames(sock, bufsize)
    except Exception as e:
        ctx.violation("reader-raised", f"socketpair: {type(e).__name__}: {e}", params)
        return
    finally:
        sock.close()
        t.join(5)
    if got != base:
        ctx.violation("schedule-dependence", f"real socketpair: {len(got)} messages vs {len(base)} over a file", params)
        return
    ctx.hit("socketpair_runs")
    ctx.case(b"P" + data + repr((sizes, bufsize)).encode(), True)


def run(ctx):
    common.quiet_logging()
    rng = ctx.rng
    # (A) wrapper level, raw reads
    for it in range(ctx.n(2400, 60000)):
        data = bytes(rng.getrandbits(8) for _ in range(rng.choice((1, 2, 5, 17, 64, 300, 1500))))
        if rng.random() < 0.3:
            data = data.replace(b"\n", b"\r\n")[:2000] + b"\r\n"
        bufsize = rng.choice(BUFSIZES)
        sched = rand_sched(rng, len(data), bufsize, rng.choice((0, 0, 1, 3)))
        reads = [rng.choice((0, 1, 1, 2, 3, 5, 10, 64, 500, len(data), len(data) + 5, "L")) for _ in range(rng.randint(1, 30))]
        raw_case(ctx, data, sched, bufsize, reads, "raw")
    # (A2) the same invariants with chunked transfer decoding on (segments smaller than a chunk etc.)
    from vf.checks import c12

    for it in range(ctx.n(600, 20000)):
        bodies = c12.make_bodies(rng, None, rng.choice((5, 40, 200)))
        how = (None, "gzip", "zlib", "deflate")[it % 4]
        total = sum(len(b) for b in bodies) + 12 * len(bodies)
        bufsize = rng.choice(BUFSIZES)
        sched = rand_sched(rng, total, bufsize, rng.choice((0, 0, 0, 1, 2)))
        reads = [rng.choice((1, 1, 2, 3, 5, 10, 64, 500)) for _ in range(rng.randint(1, 30))]
        chunked_case(ctx, bodies, how, sched, bufsize, reads)
    # enumeration: every single cut, every single fault position (short streams)
    for it in range(ctx.n(128, 2000)):
        data = make_data(rng, small=True)[:600]
        bufsize = rng.choice(BUFSIZES)
        for cut in range(1, len(data)):
            reader_case(ctx, data, [cut], bufsize, True, "single-cut")
        ctx.hit("single_cut_enumerated", max(0, len(data) - 1))
        segs = rand_sched(rng, len(data), 64)[:40] or [len(data)]
        for pos in range(len(segs) + 1):
            for f in ("T", "E"):
                reader_case(ctx, data, segs[:pos] + [f] + segs[pos:], bufsize, True, "single-fault")
        ctx.hit("single_fault_enumerated", 2 * (len(segs) + 1))
    # (B) reader level, random schedules
    logs = common.recorded_logs(60000)
    for it in range(ctx.n(3000, 90000)):
        if logs and it % 10 == 0:
            name, data = logs[rng.randrange(len(logs))]
            crlf = False
            data = data[:20000]
        else:
            data = make_data(rng)
            crlf = True
        bufsize = rng.choice(BUFSIZES)
        sched = rand_sched(rng, len(data), bufsize, rng.choice((0, 0, 0, 1, 2, 5)))
        reader_case(ctx, data, sched, bufsize, crlf, "random")
    # (B2) timeouts exactly between items, consumer resumes iteration on the same reader
    for it in range(ctx.n(600, 12000)):
        items = c02.make_items(rng, n=rng.randint(3, 10), quote=False)
        data = b"".join(b for _, b, _ in items)
        bounds, off = [], 0
        for _, b, _ in items[:-1]:
            off += len(b)
            bounds.append(off)
        cuts = sorted(rng.sample(bounds, rng.randint(1, min(4, len(bounds)))))
        sched, prev = [], 0
        for c in cuts:
            sched += [c - prev, "T"]
            prev = c
        reader_case(ctx, data, sched, rng.choice(BUFSIZES), True, "aligned-timeouts", aligned=True)
    # (C) real socket pair
    for it in range(ctx.n(32, 1600)):
        data = make_data(rng)
        sizes = [rng.choice((1, 2, 3, 7, 50, 400, 5000)) for _ in range(rng.randint(1, 8))]
        socketpair_case(ctx, data, sizes, rng.choice(BUFSIZES))


def replay(ctx, p):
    common.quiet_logging()
    if p["kind"] == "raw":
        raw_case(ctx, bytes.fromhex(p["data"]), p["sched"], p["bufsize"], p["reads"], "replay")
    elif p["kind"] == "reader":
        reader_case(ctx, bytes.fromhex(p["data"]), p["sched"], p["bufsize"], p["crlf"], "replay",
                    aligned=p.get("aligned", False))
    elif p["kind"] == "chunked":
        chunked_case(ctx, [bytes.fromhex(b) for b in p["bodies"]], p["how"], p["sched"], p["bufsize"], p["reads"])
    else:
        socketpair_case(ctx, bytes.fromhex(p["data"]), p["sizes"], p["bufsize"])
