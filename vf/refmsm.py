"""Reference MSM mask decoder and PINNED satellite / signal tables (RTCM 10403.3).

Nothing here is imported from the repository. Tables pin what the standard defines; IDs whose
status differs between the 2016 text and later amendments are *unconstrained* (value None in
`*_OPTIONAL`): the oracle accepts either the listed label or the not-available marker there.
"""

NA = "N/A"

# constellation prefix (first three digits of the message number) -> name
CONSTELLATION = {
    "107": "GPS",
    "108": "GLONASS",
    "109": "GALILEO",
    "110": "SBAS",
    "111": "QZSS",
    "112": "BEIDOU",
    "113": "NAVIC",
}

MSM_NUMBERS = [int(p) * 10 + k for p in CONSTELLATION for k in range(1, 8)]  # 49 implemented types

EPOCH_FIELD = {
    "107": "DF004",
    "108": "DF034",
    "109": "DF248",
    "110": "DF004",
    "111": "DF428",
    "112": "DF427",
    "113": "DF546",
}


def _prn_table(lo, hi, offset=0):
    return {i: i + offset for i in range(lo, hi + 1)}


# satellite ID -> PRN number (int) or special string; IDs absent => must be reported N/A
PRN_STRICT = {
    "107": _prn_table(1, 63),
    "108": _prn_table(1, 24),
    "109": {**_prn_table(1, 50), 51: "GIOVE-A", 52: "GIOVE-B"},
    "110": _prn_table(1, 39, 119),
    "111": _prn_table(1, 10, 192),
    "112": _prn_table(1, 37),
    "113": _prn_table(1, 7),
}
# IDs defined only by later amendments: either the PRN below or N/A is accepted
PRN_OPTIONAL = {
    "112": _prn_table(38, 63),
    "113": _prn_table(8, 14),
}

# signal ID -> RINEX observation code
SIG_STRICT = {
    "107": {2: "1C", 3: "1P", 4: "1W", 8: "2C", 9: "2P", 10: "2W", 15: "2S", 16: "2L", 17: "2X",
            22: "5I", 23: "5Q", 24: "5X", 30: "1S", 31: "1L", 32: "1X"},
    "108": {2: "1C", 3: "1P", 8: "2C", 9: "2P"},
    "109": {2: "1C", 3: "1A", 4: "1B", 5: "1X", 6: "1Z", 8: "6C", 9: "6A", 10: "6B", 11: "6X",
            12: "6Z", 14: "7I", 15: "7Q", 16: "7X", 18: "8I", 19: "8Q", 20: "8X", 22: "5I",
            23: "5Q", 24: "5X"},
    "110": {2: "1C", 22: "5I", 23: "5Q", 24: "5X"},
    "111": {2: "1C", 9: "6S", 10: "6L", 11: "6X", 15: "2S", 16: "2L", 17: "2X", 22: "5I",
            23: "5Q", 24: "5X", 30: "1S", 31: "1L", 32: "1X"},
    "112": {2: "2I", 3: "2Q", 4: "2X", 8: "6I", 9: "6Q", 10: "6X", 14: "7I", 15: "7Q", 16: "7X"},
    "113": {22: "5A"},
}
# later amendments (BeiDou-3 signals, GLONASS CDMA, NavIC S-band): listed code or N/A accepted
SIG_OPTIONAL = {
    "108": {10: "4A", 11: "4B", 12: "4X", 13: "6A", 14: "6B", 15: "6X", 16: "3I", 17: "3Q", 18: "3X"},
    "112": {22: "5D", 23: "5P", 24: "5X", 25: "7D", 30: "1D", 31: "1P", 32: "1X"},
    "113": {8: "9A"},
}


def scan_masks(satmask: int, sigmask: int, cellmask: int):
    """Own scan of the three masks. Returns (sat_ids, sig_ids, cells[(sat_id, sig_id)])."""
    sats = [i for i in range(1, 65) if (satmask >> (64 - i)) & 1]
    sigs = [i for i in range(1, 33) if (sigmask >> (32 - i)) & 1]
    width = len(sats) * len(sigs)
    cells = []
    k = 0
    for s in sats:
        for g in sigs:
            if (cellmask >> (width - 1 - k)) & 1:
                cells.append((s, g))
            k += 1
    return sats, sigs, cells


def prn_ok(prefix: str, sat_id: int, label) -> bool:
    """Is `label` an acceptable PRN label for satellite ID sat_id of this constellation?"""
    strict = PRN_STRICT[prefix]
    opt = PRN_OPTIONAL.get(prefix, {})
    if sat_id in strict:
        return _same_prn(label, strict[sat_id])
    if sat_id in opt:
        return label == NA or _same_prn(label, opt[sat_id])
    return label == NA


def _same_prn(label, want) -> bool:
    if isinstance(want, str):
        return label == want
    if isinstance(label, bool):
        return False
    if isinstance(label, int):
        return label == want
    if isinstance(label, str) and label.isdigit():
        return int(label) == want
    return False


def sig_ok(prefix: str, sig_id: int, label) -> bool:
    """Is `label` an acceptable RINEX code for signal ID sig_id of this constellation?"""
    strict = SIG_STRICT[prefix]
    opt = SIG_OPTIONAL.get(prefix, {})
    if sig_id in strict:
        return label == strict[sig_id]
    if sig_id in opt:
        return label in (NA, opt[sig_id])
    return label == NA


def sig_defined(prefix: str, sig_id: int):
    """'strict' | 'optional' | 'undefined'"""
    if sig_id in SIG_STRICT[prefix]:
        return "strict"
    if sig_id in SIG_OPTIONAL.get(prefix, {}):
        return "optional"
    return "undefined"
