"""Internal monitors attached from outside the repository (no source hooks).

* icontract post-conditions on the real callables (named condition functions, explicit error=);
  conditions RECORD and return True, because a raising contract inside the parser would be
  swallowed by its own `except Exception` and would abort what it observes.
* recording wrappers, table digests, write-barrier proxies, sys.monitoring line coverage and
  yield injection.
Internal monitors are optional evidence; verdicts are carried by boundary monitors.
"""

import hashlib
import sys
import threading

EVAL = {}  # monitor name -> number of evaluations
RECORDED = []  # (monitor, description) recorded internal violations
VISITS = set()  # (identity, field key) visited by the real field decoder
CURRENT = {"identity": None}
_lock = threading.Lock()


def _bump(name):
    EVAL[name] = EVAL.get(name, 0) + 1


class ContractBroken(Exception):
    pass


# ------------------------------------------------------------------ field decoder contract
def field_ends_within_payload(self, anam, offset, result):
    """Evidence only. Must never disturb the code it observes: whatever goes wrong in here (a renamed private
    attribute, another signature) is swallowed and the condition holds."""
    try:
        _bump("field_ends_within_payload")
        nbits = getattr(self, "_payblen", None)
        if isinstance(nbits, int) and isinstance(result, int):
            if result > nbits:
                RECORDED.append(("field-past-end", f"field {anam} ends at bit {result} > payload bits {nbits}"))
            if isinstance(offset, int) and result < offset:
                RECORDED.append(("offset-decreased", f"field {anam}: offset {offset} -> {result}"))
        VISITS.add((CURRENT["identity"], anam))
    except Exception:
        pass
    return True


def install_field_monitor():
    """icontract.ensure on RTCMMessage._set_attribute_single. Returns True if installed."""
    try:
        import icontract
        from pyrtcm.rtcmmessage import RTCMMessage

        orig = RTCMMessage.__dict__.get("_set_attribute_single")
        if orig is None or getattr(orig, "_vf_wrapped", False):
            return orig is not None
        import inspect

        if list(inspect.signature(orig).parameters)[:3] != ["self", "anam", "offset"]:
            return False  # another signature: the optional internal monitor is not attached
        wrapped = icontract.ensure(field_ends_within_payload, error=ContractBroken)(orig)
        wrapped._vf_wrapped = True
        RTCMMessage._set_attribute_single = wrapped
        return True
    except Exception:  # anchor renamed or icontract missing: optional monitor skipped
        return False


# ------------------------------------------------------------------ CRC / framing helper contracts
def install_crc_monitor():
    """icontract.ensure on calc_crc24q / crc2bytes / len2bytes in every namespace that holds them."""
    try:
        import icontract
        import pyrtcm
        import pyrtcm.rtcmhelpers as H
        import pyrtcm.rtcmmessage as M
        import pyrtcm.rtcmreader as R

        from vf import refcrc

        def crc_matches_reference(message, result):
            try:
                _bump("crc_matches_reference")
                if result != refcrc.crc_ref2(bytes(message)):
                    RECORDED.append(("crc-mismatch", f"calc_crc24q({bytes(message)[:16].hex()}..) = {result:#x}"))
            except Exception:
                pass
            return True

        def crcbytes_match_reference(message, result):
            try:
                _bump("crcbytes_match_reference")
                if result != refcrc.crc_ref2(bytes(message)).to_bytes(3, "big"):
                    RECORDED.append(("crc2bytes-mismatch", f"crc2bytes(..{len(message)} bytes) = {result!r}"))
            except Exception:
                pass
            return True

        def len_is_16bit_bigendian(payload, result):
            try:
                _bump("len_is_16bit_bigendian")
                if result != bytes([len(payload) >> 8, len(payload) & 0xFF]):
                    RECORDED.append(("len2bytes-mismatch", f"len2bytes({len(payload)}) = {result!r}"))
            except Exception:
                pass
            return True

        import inspect

        for fn_, names_ in ((H.calc_crc24q, ["message"]), (H.crc2bytes, ["message"]), (H.len2bytes, ["payload"])):
            if list(inspect.signature(fn_).parameters) != names_:
                return False  # other parameter names: the optional internal monitors are not attached

        if not getattr(H.calc_crc24q, "_vf_wrapped", False):
            c = icontract.ensure(crc_matches_reference, error=ContractBroken)(H.calc_crc24q)
            c._vf_wrapped = True
            old = H.calc_crc24q
            for mod in (H, R, pyrtcm):
                if getattr(mod, "calc_crc24q", None) is old:
                    setattr(mod, "calc_crc24q", c)
        if not getattr(H.crc2bytes, "_vf_wrapped", False):
            c = icontract.ensure(crcbytes_match_reference, error=ContractBroken)(H.crc2bytes)
            c._vf_wrapped = True
            old = H.crc2bytes
            for mod in (H, M, pyrtcm):
                if getattr(mod, "crc2bytes", None) is old:
                    setattr(mod, "crc2bytes", c)
        if not getattr(H.len2bytes, "_vf_wrapped", False):
            c = icontract.ensure(len_is_16bit_bigendian, error=ContractBroken)(H.len2bytes)
            c._vf_wrapped = True
            old = H.len2bytes
            for mod in (H, M, pyrtcm):
                if getattr(mod, "len2bytes", None) is old:
                    setattr(mod, "len2bytes", c)
        return True
    except Exception:
        return False


# ------------------------------------------------------------------ table digest & write barrier
def _canon(obj, out, depth=0):
    if depth > 12:
        out.append(b"<deep>")
        return
    if isinstance(obj, dict):
        out.append(b"{")
        for k, v in obj.items():  # order-preserving on purpose
            _canon(k, out, depth + 1)
            out.append(b":")
            _canon(v, out, depth + 1)
            out.append(b",")
        out.append(b"}")
    elif isinstance(obj, (list, tuple)):
        out.append(b"[" if isinstance(obj, list) else b"(")
        for v in obj:
            _canon(v, out, depth + 1)
            out.append(b",")
        out.append(b"]")
    elif isinstance(obj, (set, frozenset)):
        out.append(b"s{")
        for v in sorted(obj, key=repr):
            _canon(v, out, depth + 1)
            out.append(b",")
        out.append(b"}")
    else:
        out.append(type(obj).__name__.encode() + b"=" + repr(obj).encode())


TABLE_MODULES = ("pyrtcm.rtcmtypes_core", "pyrtcm.rtcmtypes_get", "pyrtcm.rtcmtypes_get_igs",
                 "pyrtcm.rtcmtypes_get_msm", "pyrtcm.rtcmtables")


def table_objects():
    """Every module-level dict/list/tuple/set of the definition and lookup modules."""
    import importlib

    out = {}
    for mn in TABLE_MODULES:
        try:
            mod = importlib.import_module(mn)
        except ImportError:
            continue
        for name, val in vars(mod).items():
            if name.startswith("_"):
                continue  # private module state (e.g. a memo cache) is not a definition / lookup table
            if isinstance(val, (dict, list, tuple, set)):
                out[f"{mn}.{name}"] = val
    return out


def table_digest():
    """Order-preserving deep digest of all definition / lookup tables: {name: hex}, overall hex."""
    per = {}
    h = hashlib.blake2b(digest_size=16)
    for name, val in sorted(table_objects().items()):
        out = []
        _canon(val, out)
        d = hashlib.blake2b(b"".join(out), digest_size=8).hexdigest()
        per[name] = d
        h.update(name.encode() + d.encode())
    return per, h.hexdigest()


# ------------------------------------------------------------------ sys.monitoring tools
class LineCoverage:
    """Executed-line sets inside /repo/src/pyrtcm via sys.monitoring LINE events (DISABLE after first hit)."""

    TOOL = 3

    def __init__(self, prefix):
        self.prefix = prefix
        self.lines = set()
        self.active = False

    def start(self):
        mon = sys.monitoring
        try:
            mon.use_tool_id(self.TOOL, "vf-linecov")
        except ValueError:
            return False
        mon.register_callback(self.TOOL, mon.events.LINE, self._cb)
        mon.set_events(self.TOOL, mon.events.LINE)
        self.active = True
        return True

    def _cb(self, code, line):
        fn = code.co_filename
        if fn.startswith(self.prefix):
            self.lines.add((fn[len(self.prefix):], code.co_name, line))
        return sys.monitoring.DISABLE

    def stop(self):
        if not self.active:
            return
        mon = sys.monitoring
        mon.set_events(self.TOOL, 0)
        mon.register_callback(self.TOOL, mon.events.LINE, None)
        mon.free_tool_id(self.TOOL)
        self.active = False

    def functions(self):
        out = {}
        for fn, name, line in self.lines:
            out.setdefault(f"{fn}:{name}", set()).add(line)
        return {k: len(v) for k, v in sorted(out.items())}


class YieldInjector:
    """LINE events inside the parser that sleep(0) with small probability: forced thread switches
    between any two statements of the code under test. Counts switches observed in-parser."""

    TOOL = 4

    def __init__(self, prefix, rng, prob=0.02):
        import time

        self.prefix = prefix
        self.rng = rng
        self.prob = prob
        self.sleep = time.sleep
        self.events = 0
        self.yields = 0
        self.switches = 0
        self.last_thread = None
        self.active = False

    def start(self):
        mon = sys.monitoring
        try:
            mon.use_tool_id(self.TOOL, "vf-yield")
        except ValueError:
            return False
        mon.register_callback(self.TOOL, mon.events.LINE, self._cb)
        mon.set_events(self.TOOL, mon.events.LINE)
        self.active = True
        return True

    def _cb(self, code, line):
        if not code.co_filename.startswith(self.prefix):
            return sys.monitoring.DISABLE
        self.events += 1
        tid = threading.get_ident()
        if self.last_thread is not None and tid != self.last_thread:
            self.switches += 1
        self.last_thread = tid
        if self.rng.random() < self.prob:
            self.yields += 1
            self.sleep(0)
        return None

    def stop(self):
        if not self.active:
            return
        mon = sys.monitoring
        mon.set_events(self.TOOL, 0)
        mon.register_callback(self.TOOL, mon.events.LINE, None)
        mon.free_tool_id(self.TOOL)
        self.active = False


class LineBudget:
    """Logical step budget: counts LINE events executed inside the library (sys.monitoring) and raises
    `exc` from the callback when the budget is exceeded - catches pure-CPU loops that never touch a double."""

    TOOL = 5

    def __init__(self, prefix, limit, exc):
        self.prefix, self.limit, self.exc = prefix, limit, exc
        self.count = 0
        self.active = False

    def __enter__(self):
        mon = sys.monitoring
        try:
            mon.use_tool_id(self.TOOL, "vf-linebudget")
        except ValueError:
            return self
        mon.register_callback(self.TOOL, mon.events.LINE, self._cb)
        mon.set_events(self.TOOL, mon.events.LINE)
        self.active = True
        return self

    def _cb(self, code, line):
        if not code.co_filename.startswith(self.prefix):
            return sys.monitoring.DISABLE
        self.count += 1
        if self.count > self.limit:
            self.count = 0
            raise self.exc(f"more than {self.limit} library lines executed in one operation")
        return None

    def __exit__(self, *a):
        if self.active:
            mon = sys.monitoring
            mon.set_events(self.TOOL, 0)
            mon.register_callback(self.TOOL, mon.events.LINE, None)
            mon.free_tool_id(self.TOOL)
            self.active = False
        return False
