"""Runtime-monitoring framework for semuconsulting/pyrtcm (properties C01-C19).

Importing this package puts the repository under test (VERIF_REPO, default /repo) first on
sys.path so that `import pyrtcm` is always the *current working tree*, never an installed copy.
"""

import os
import sys

VERIF_DIR = os.path.dirname(os.path.dirname(os.path.abspath(__file__)))
REPO = os.environ.get("VERIF_REPO", "/repo")
REPO_SRC = os.path.join(REPO, "src")
DEPS = os.path.join(VERIF_DIR, ".deps")

# VIRTUAL TIME. time.monotonic() / time.perf_counter() run ahead of the real clocks by FAKE_CLOCK[0] seconds; scripted
# receive timeouts (vf.doubles.ScriptedSocket) advance it by 45 s each. Installed here, i.e. before pyrtcm is imported,
# so that `from time import monotonic` inside the code under test sees it too. Code that (wrongly) lets wall-clock
# silences decide what happens to buffered data meets long silences without any check waiting for them. time.time()
# is left alone (the runner measures wall time with it).
import time as _time

FAKE_CLOCK = [0.0]
if not getattr(_time, "_vf_virtual", False):
    _real_monotonic, _real_perf = _time.monotonic, _time.perf_counter
    _time.monotonic = lambda: _real_monotonic() + FAKE_CLOCK[0]
    _time.perf_counter = lambda: _real_perf() + FAKE_CLOCK[0]
    _time._vf_virtual = True

sys.dont_write_bytecode = True
if REPO_SRC in sys.path:
    sys.path.remove(REPO_SRC)
sys.path.insert(0, REPO_SRC)
if os.path.isdir(DEPS) and DEPS not in sys.path:
    sys.path.append(DEPS)


def ensure_deps():
    """Install icontract offline into /verif/.deps if it is not importable (git-ignored dir)."""
    try:
        import icontract  # noqa: F401

        return True
    except ImportError:
        pass
    import subprocess

    os.makedirs(DEPS, exist_ok=True)
    subprocess.run(
        [
            sys.executable,
            "-m",
            "pip",
            "install",
            "--quiet",
            "--no-index",
            "--find-links",
            "/opt/veriftools/wheels",
            "--target",
            DEPS,
            "icontract",
        ],
        stdout=subprocess.DEVNULL,
        stderr=subprocess.DEVNULL,
        check=False,
    )
    if DEPS not in sys.path:
        sys.path.append(DEPS)
    try:
        import icontract  # noqa: F401

        return True
    except ImportError:
        return False
