"""Runtime-monitoring framework for semuconsulting/pyrtcm (properties C01-C19).

Importing this package puts the repository under test (VERIF_REPO, default /repo) first on
sys.path so that `import pyrtcm` is always the *current working tree*, never an installed copy.
"""

import os
import sys

VERIF_DIR = os.path.dirname(os.path.dirname(os.path.abspath(__file__)))
REPO = os.environ.get("VERIF_REPO", "/repo")
REPO_SRC = os.path.join(REPO, "src")
DEPS = os.path.join(VERIF_DIR, ".deps")

sys.dont_write_bytecode = True
if REPO_SRC in sys.path:
    sys.path.remove(REPO_SRC)
sys.path.insert(0, REPO_SRC)
if os.path.isdir(DEPS) and DEPS not in sys.path:
    sys.path.append(DEPS)


def ensure_deps():
    """Install icontract offline into /verif/.deps if it is not importable (git-ignored dir)."""
    try:
        import icontract  # noqa: F401

        return True
    except ImportError:
        pass
    import subprocess

    os.makedirs(DEPS, exist_ok=True)
    subprocess.run(
        [
            sys.executable,
            "-m",
            "pip",
            "install",
            "--quiet",
            "--no-index",
            "--find-links",
            "/opt/veriftools/wheels",
            "--target",
            DEPS,
            "icontract",
        ],
        stdout=subprocess.DEVNULL,
        stderr=subprocess.DEVNULL,
        check=False,
    )
    if DEPS not in sys.path:
        sys.path.append(DEPS)
    try:
        import icontract  # noqa: F401

        return True
    except ImportError:
        return False
