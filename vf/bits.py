"""Bit packer / unpacker written independently of the code under test (big-int based)."""


class BitWriter:
    """Append (value, width) fields MSB-first; remembers the bit range of each append."""

    def __init__(self):
        self.val = 0
        self.n = 0

    def put(self, value: int, width: int):
        assert 0 <= value < (1 << width) or width == 0, (value, width)
        start = self.n
        self.val = (self.val << width) | value
        self.n += width
        return (start, self.n)

    def bytes(self, pad_bits_value: int = 0) -> bytes:
        """Pad to a whole number of bytes (pad bits all 0 or all 1) and return the bytes."""
        pad = (-self.n) % 8
        v = self.val << pad
        if pad and pad_bits_value:
            v |= (1 << pad) - 1
        return v.to_bytes((self.n + pad) // 8, "big")


def get_bits(data: bytes, start: int, width: int) -> int:
    """Unsigned value of `width` bits starting at bit `start` (bit 0 = MSB of byte 0)."""
    if width == 0:
        return 0
    total = len(data) * 8
    assert start + width <= total
    return (int.from_bytes(data, "big") >> (total - start - width)) & ((1 << width) - 1)


def set_bits(data: bytes, start: int, width: int, value: int) -> bytes:
    total = len(data) * 8
    assert start + width <= total
    mask = ((1 << width) - 1) << (total - start - width)
    v = int.from_bytes(data, "big")
    v = (v & ~mask) | ((value << (total - start - width)) & mask)
    return v.to_bytes(len(data), "big")


def flip_bits(data: bytes, positions) -> bytes:
    """Flip the given bit positions (bit 0 = MSB of byte 0)."""
    b = bytearray(data)
    for p in positions:
        b[p >> 3] ^= 0x80 >> (p & 7)
    return bytes(b)


def twos(value: int, width: int) -> int:
    """Two's-complement interpretation."""
    return value - (1 << width) if value >> (width - 1) & 1 else value


def signmag(value: int, width: int) -> int:
    """Sign-magnitude interpretation (MSB = sign)."""
    mag = value & ((1 << (width - 1)) - 1)
    return -mag if value >> (width - 1) & 1 else mag


def popcount(v: int) -> int:
    return bin(v).count("1")
