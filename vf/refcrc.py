"""Two independent CRC-24Q references (neither shares code or structure with pyrtcm).

ref1: GF(2) polynomial long division on Python big ints (message * x^24 mod G).
ref2: byte-wise table driven, table generated from the polynomial at import time.
"""

POLY = 0x1864CFB  # x^24 + x^23 + x^18 + x^17 + x^14 + x^11 + x^10 + x^7 + x^6 + x^5 + x^4 + x^3 + x + 1


def crc_ref1(data: bytes) -> int:
    """Remainder of data(x) * x^24 divided by POLY, by long division on a big int."""
    if not data:
        return 0
    v = int.from_bytes(data, "big") << 24
    blen = v.bit_length()
    while blen > 24:
        v ^= POLY << (blen - 25)
        blen = v.bit_length()
    return v


def _mktable():
    tbl = []
    for b in range(256):
        r = b << 16
        for _ in range(8):
            r = ((r << 1) ^ POLY) if r & 0x800000 else (r << 1)
        tbl.append(r & 0xFFFFFF)
    return tbl


_TABLE = _mktable()


def crc_ref2(data: bytes) -> int:
    crc = 0
    tbl = _TABLE
    for b in data:
        crc = ((crc << 8) & 0xFFFFFF) ^ tbl[(crc >> 16) ^ b]
    return crc


def frame(payload: bytes) -> bytes:
    """Build an RTCM3 transport frame around payload with the reference CRC."""
    assert len(payload) <= 1023
    hdr = b"\xd3" + bytes([len(payload) >> 8, len(payload) & 0xFF])
    body = hdr + payload
    return body + crc_ref2(body).to_bytes(3, "big")


def wellformed(raw: bytes):
    """Return None if raw is a well-formed RTCM3 frame, else a reason string."""
    if len(raw) < 6:
        return "shorter than 6 bytes"
    if raw[0] != 0xD3:
        return "preamble is not 0xD3"
    if raw[1] & 0xFC:
        return "reserved six bits not zero"
    ln = ((raw[1] & 3) << 8) | raw[2]
    if ln != len(raw) - 6:
        return f"length field {ln} != enclosed payload size {len(raw) - 6}"
    if crc_ref2(raw) != 0:
        return "CRC-24Q trailer incorrect"
    return None
