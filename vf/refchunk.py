"""RFC 9112 chunked transfer-coding encoder (+ per-chunk gzip / zlib / raw deflate) and reference decoder."""

import zlib

WBITS = {"gzip": zlib.MAX_WBITS | 16, "zlib": zlib.MAX_WBITS, "deflate": -zlib.MAX_WBITS}


FORCE = None


def compress(body: bytes, how):
    if not how:
        return body
    # a peer may use any window size (9..15) and any level (0 = stored blocks .. 9); both decided by the body
    k = zlib.crc32(body)
    w = 9 + k % 7
    if FORCE is not None:  # (level, window) fixed by the caller
        c = zlib.compressobj(FORCE[0], zlib.DEFLATED, {"gzip": 16 + FORCE[1], "zlib": FORCE[1], "deflate": -FORCE[1]}[how])
        return c.compress(body) + c.flush()
    wbits = {"gzip": 16 + w, "zlib": w, "deflate": -w}[how]
    c = zlib.compressobj((6, 9, 1, 0, 6)[(k >> 8) % 5], zlib.DEFLATED, wbits)
    return c.compress(body) + c.flush()


def encode(bodies, upper=False, terminate=True, how=None, pad_size=0):
    """Returns (encoded bytes, layout) where layout lists (kind, start, end) byte ranges of the encoding:
    kinds: 'size' (hex digits), 'size-cr', 'size-lf', 'data', 'data-cr', 'data-lf', and 'zero' for the last chunk."""
    out = bytearray()
    layout = []
    for b in bodies:
        z = compress(b, how)
        digits = (f"{len(z):X}" if upper else f"{len(z):x}").rjust(pad_size, "0").encode()
        for kind, piece in (("size", digits), ("size-cr", b"\r"), ("size-lf", b"\n"), ("data", z), ("data-cr", b"\r"),
                            ("data-lf", b"\n")):
            layout.append((kind, len(out), len(out) + len(piece)))
            out += piece
    if terminate:
        layout.append(("zero", len(out), len(out) + 5))
        out += b"0\r\n\r\n"
    return bytes(out), layout


def decode(encoded: bytes, how=None):
    """Reference decoder of a complete, well-formed chunked body."""
    out = bytearray()
    i = 0
    while i < len(encoded):
        j = encoded.index(b"\r\n", i)
        n = int(encoded[i:j], 16)
        if n == 0:
            break
        data = encoded[j + 2 : j + 2 + n]
        assert encoded[j + 2 + n : j + 4 + n] == b"\r\n"
        out += zlib.decompress(data, wbits=WBITS[how]) if how else data
        i = j + 4 + n
    return bytes(out)


def cut_class(layout, cut):
    """Class of a receive boundary at byte offset `cut` (0 < cut < len) relative to chunk syntax."""
    for kind, a, b in layout:
        if a < cut < b:
            return {"size": "inside-size-digits", "data": "inside-data", "zero": "inside-zero-chunk"}.get(kind, kind)
        if cut == a:
            return {"size": "between-chunks", "size-cr": "between-size-and-CR", "size-lf": "between-size-CR-and-LF",
                    "data": "before-first-data-byte", "data-cr": "between-data-and-CR",
                    "data-lf": "between-terminating-CR-and-LF", "zero": "before-zero-chunk"}[kind]
    return "end"
