"""pytest plugin: run the repository's own tests with the icontract monitors switched on.

  cd /repo && PYTHONPATH=/verif:/verif/.deps /venv/bin/python -m pytest -p vf.pytest_contracts -q -p no:cacheprovider

A contract that records something there is either too strict or a defect the tests do not assert.
"""

from vf import monitors


def pytest_sessionstart(session):
    session.config._vf = (monitors.install_field_monitor(), monitors.install_crc_monitor())


def pytest_terminal_summary(terminalreporter):
    tr = terminalreporter
    tr.write_line(f"[vf contracts] installed={tr.config._vf} evaluations={monitors.EVAL}")
    tr.write_line(f"[vf contracts] recorded violations: {len(monitors.RECORDED)} {monitors.RECORDED[:5]}")
