"""Definition-driven reference encoder + expected-attribute oracle.

The *engine* (offset arithmetic, sign handling, naming, recursion, data-dependent sizes) is written
here from scratch; the repository's payload dictionaries and data-field table are read as DATA.
"""

from vf import bits as B
from vf import refmsm

MAXBITS = 1023 * 8


class DefinitionError(Exception):
    """The definition tables themselves are malformed (C10-type defect)."""


class TooLong(Exception):
    pass


class Short(Exception):
    """Decode mode: the payload is shorter than the fields/counts/masks it announces require."""

    def __init__(self, key, name, need, have):
        super().__init__(f"field {name} needs bits up to {need}, payload has {have}")
        self.key, self.name, self.need, self.have = key, name, need, have


def load_tables():
    from pyrtcm.rtcmtypes_core import RTCM_DATA_FIELDS
    from pyrtcm.rtcmtypes_get import RTCM_PAYLOADS_GET
    from pyrtcm.rtcmtypes_get_igs import RTCM_PAYLOADS_GET_IGS
    from pyrtcm.rtcmtypes_get_msm import RTCM_PAYLOADS_GET_MSM

    defs = {}
    for src in (RTCM_PAYLOADS_GET, RTCM_PAYLOADS_GET_MSM, RTCM_PAYLOADS_GET_IGS):
        for k, v in src.items():
            defs[k] = v
    return defs, RTCM_DATA_FIELDS


_TABLES = None


def tables():
    global _TABLES
    if _TABLES is None:
        _TABLES = load_tables()
    return _TABLES


def identities():
    return sorted(tables()[0].keys())


def is_msm_identity(identity: str) -> bool:
    return len(identity) == 4 and identity[:3] in refmsm.CONSTELLATION and identity[3] in "1234567"


def reachable(identity: str) -> bool:
    """Can this identity be expressed in a header (12-bit number [+ 8-bit subtype])?"""
    if identity.startswith("4076_"):
        return identity[5:].isdigit() and 0 <= int(identity[5:]) <= 255
    return identity.isdigit() and 0 <= int(identity) <= 4095


def prescan(pdict, counters=None, conds=None, leaves=None):
    """Collect counter names, condition names and leaf field keys of a definition."""
    if counters is None:
        counters, conds, leaves = set(), set(), []
    if not isinstance(pdict, dict):
        raise DefinitionError(f"group body is {type(pdict).__name__}, not a dict: {pdict!r}")
    for key, val in pdict.items():
        if isinstance(val, tuple):
            if len(val) != 2:
                raise DefinitionError(f"group {key!r} is not a 2-tuple")
            gtyp, gdict = val
            if isinstance(gtyp, tuple):
                conds.add(gtyp[0])
            elif isinstance(gtyp, str):
                counters.add(gtyp.split("+")[0])
            prescan(gdict, counters, conds, leaves)
        else:
            leaves.append(key)
    return counters, conds, leaves


def decode_value(typ, width, res, raw):
    """Value a field's bits encode, decoded independently of the code under test."""
    if typ == "INT":
        val = B.twos(raw, width)
    elif typ == "SNT":
        val = B.signmag(raw, width)
    elif typ in ("CHA", "STR"):
        val = chr(raw)
    else:
        val = raw
    if typ not in ("CHA", "STR") and res not in (0, 1, None):
        val = val * res
    return val


# real-world text (IGS antenna / receiver naming, CRS names, firmware and serial numbers): content-gated special cases
# key on strings like these, random code units never spell them
VOCAB = ("ADVNULLANTENNA", "ADVNULLANTENNA  NONE", "TRM59800.00     SCIS", "LEIAR25.R4      LEIT", "TRM57971.00     NONE",
         "SEPCHOKE_B3E6   SPKE", "JAVRINGANT_DM   SCIS", "ASH701945E_M    SNOW", "AOAD/M_T        NONE", "NONE",
         "TRIMBLE NETR9", "SEPT POLARX5", "LEICA GR50", "JAVAD TRE_3 DELTA", "u-blox ZED-F9P", "SEPT MOSAIC-X5",
         "5.45", "1.3-2", "4.85/6.05", "5237K12345", "3013601", "00000",
         "ETRF2000", "ITRF2014", "ITRF2020", "ETRF2014", "ETRS89", "WGS84", "NAD83(2011)", "GDA2020", "EPSG:4936",
         "ETRF2000(R08)", "ITRF2008", "EUREF01", "IGS", "RTCM", "STATION ON BATTERY", "UNKNOWN", "0", " ")
VSTRATS = ("zero", "ones", "signbit", "maxmag", "random", "mixed", "alt", "related")
CSTRATS = ("zero", "one", "max", "random", "small")
MSTRATS = ("empty", "single", "dense", "random", "nosig", "nocell", "fullcell")


class Encoded:
    """Result of building one reference message."""

    __slots__ = ("identity", "payload", "nbits", "fields", "expected", "meta", "strategy")

    def expected_dict(self):
        return {n: v for n, v, _ in self.expected}


class Builder:
    """Walks one definition, choosing raw values, laying out bits, predicting attributes."""

    def __init__(self, identity, rng, vstrat="random", cstrat="small", mstrat="random",
                 cap=None, force=None, maxcells=64, pad1=False, source=None, tabs=None):
        defs, fields = tabs if tabs is not None else tables()
        self.identity = identity
        self.pdict = defs[identity]
        self.F = fields
        self.rng = rng
        self.vstrat, self.cstrat, self.mstrat = vstrat, cstrat, mstrat
        self.cap = cap
        self.force = force or {}  # attr name -> raw value override
        self.maxcells = maxcells
        self.pad1 = pad1
        self.source = source  # decode mode: raw values are READ from these bytes
        self.zero_str = False
        self.counters, self.conds, self.leaves = prescan(self.pdict)
        self.w = B.BitWriter()
        self.fields = []
        self.expected = []  # (name, value, kind)
        self.values = {}  # attr name -> decoded value (for counter / condition lookup)
        self.strs = {}  # STR key -> index in expected
        self.meta = {}
        self.layer = {}

    # ---------------------------------------------------------------- raw value choice
    def _rand_value(self, width, typ):
        if width == 0:
            return 0
        s = self.vstrat
        if s == "mixed":
            s = self.rng.choice(("zero", "ones", "signbit", "maxmag", "random", "random", "related"))
        if s == "related":
            # values that are RELATED to each other or to the structure, which independent random choice never gives:
            # the same pattern in every field, its complement, the previous field's value (+1), the number of fields
            # so far, a repeated byte, the bit-reverse of the previous value
            if not hasattr(self, "_pool"):
                self._pool = self.rng.getrandbits(64) | 1
                self._prev = 0
            mask = (1 << width) - 1
            k = self.rng.randrange(9)
            raw = (self._pool & mask, ~self._pool & mask, self._prev & mask, (self._prev + 1) & mask,
                   len(self.fields) & mask, int.from_bytes(bytes([self._pool & 0xFF]) * 9, "big") & mask,
                   int(format(self._prev & mask, f"0{width}b")[::-1], 2), (self._pool >> (64 - min(width, 64))) & mask,
                   (mask + 1 - (self._prev & mask)) & mask)[k]
            self._prev = raw
            return raw
        if s == "zero":
            return 0
        if s == "ones":
            return (1 << width) - 1
        if s == "signbit":
            return 1 << (width - 1)
        if s == "maxmag":
            return (1 << (width - 1)) - 1 if width > 1 else 1
        if s == "alt":
            return int("10" * width, 2) & ((1 << width) - 1)
        return self.rng.getrandbits(width)

    def _count_value(self, width, name):
        mx = (1 << width) - 1
        s = self.cstrat
        if s == "zero":
            v = 0
        elif s == "one":
            v = min(1, mx)
        elif s == "max":
            v = mx
        elif s == "small":
            v = self.rng.randint(0, min(3, mx))
        else:
            v = self.rng.randint(0, mx)
        if self.cap is not None:
            v = min(v, self.cap)
        return v

    def _masks(self):
        """Choose (satmask, sigmask) by strategy; cell mask chosen when DF396 is emitted."""
        r = self.rng
        s = self.mstrat
        if s == "empty":
            return 0, 0
        if s == "nosig":
            return r.getrandbits(64) | 1 << r.randrange(64), 0
        if s == "single":
            return 1 << r.randrange(64), 1 << r.randrange(32)
        # number of sats / sigs with product <= maxcells
        if s == "dense":
            nsig = r.choice((1, 2, 3, 4, 8, 16, 32))
            nsat = max(1, self.maxcells // nsig)
        else:
            nsat = r.randint(1, min(64, self.maxcells))
            nsig = r.randint(1, max(1, min(32, self.maxcells // nsat)))
        sats = r.sample(range(64), nsat)
        sigs = r.sample(range(32), nsig)
        return sum(1 << b for b in sats), sum(1 << b for b in sigs)

    # ---------------------------------------------------------------- emission
    def _name(self, key, index):
        name = key
        for i in index:
            name += f"_{i:02d}"
        return name

    def _emit(self, key, index):
        try:
            typ, size, res, _desc = self.F[key]
        except KeyError:
            raise DefinitionError(f"{self.identity}: field {key!r} is not a defined data field")
        name = self._name(key, index)
        if typ in ("PRN", "CPR", "CSG"):
            if "cells" not in self.meta:
                raise DefinitionError(f"{self.identity}: label field {key} before the masks")
            i = index[0]
            if typ == "PRN":
                ids = self.meta["sats"]
                label = ("sat", ids[i - 1]) if i - 1 < len(ids) else None
            else:
                cells = self.meta["cells"]
                if i - 1 < len(cells):
                    label = ("sat", cells[i - 1][0]) if typ == "CPR" else ("sig", cells[i - 1][1])
                else:
                    label = None
            self.expected.append((name, label, "label"))
            self.fields.append(dict(key=key, name=name, start=self.w.n, width=0, typ=typ, raw=0,
                                    role="label", index=tuple(index)))
            return
        role = "plain"
        width = size
        if key == "DF396":
            width = len(self.meta["sats"]) * len(self.meta["sigs"])
            role = "mask"
        # ---- choose raw
        if self.source is not None:
            have = len(self.source) * 8
            if self.w.n + width > have:
                ex = Short(key, name, self.w.n + width, have)
                ex.m_gt_n = any(m > n for n, m, _, _ in self.meta.get("layers", []))
                raise ex
            raw = B.get_bits(self.source, self.w.n, width)
            if key in ("DF394", "DF395"):
                role = "mask"
            elif key in self.counters or key in ("IDF037", "IDF038"):
                role = "counter"
            elif key in self.conds:
                role = "cond"
            elif key in ("DF002",) and not index:
                role = "identity"
            if typ == "STR" and raw == 0:
                self.zero_str = True
        elif name in self.force:
            raw = self.force[name] & ((1 << width) - 1) if width else 0
            if key in ("DF394", "DF395"):
                role = "mask"
            elif key in self.counters or key in ("IDF037", "IDF038"):
                role = "counter"
            elif key in self.conds:
                role = "cond"
        elif key == "DF002" and not index:
            raw = int(self.identity[:4])
            role = "identity"
        elif key == "IDF002" and not index and self.identity.startswith("4076_"):
            raw = int(self.identity[5:])
            role = "identity"
        elif key == "DF394":
            sm, gm = self._masks()
            self._pending_sig = gm
            raw = sm
            role = "mask"
        elif key == "DF395":
            raw = getattr(self, "_pending_sig", 0)
            role = "mask"
        elif key == "DF396":
            if self.mstrat == "nocell":
                raw = 0
            elif self.mstrat in ("fullcell", "dense"):
                raw = (1 << width) - 1 if width else 0
            else:
                raw = self.rng.getrandbits(width) if width else 0
        elif key == "IDF037":
            n = self.rng.randint(0, 15) if self.cstrat != "max" else 15
            if self.cstrat == "zero":
                n = 0
            self._pending_m = None
            if self.vstrat == "related" and self.cstrat != "zero":
                # a layer RELATED to the one before: another (degree, order) with the same number of cosine coefficients
                lay = self.meta.get("layers", [])
                if not lay:
                    n = self.rng.randint(1, 7)
                else:
                    pn, pm, pc, _ = lay[-1]
                    hc = lambda a, b: (a + 1) * (a + 2) // 2 - (a - b) * (a - b + 1) // 2  # noqa: E731
                    cands = [(a, b) for a in range(1, 17) for b in range(1, a + 1) if (a, b) != (pn, pm) and hc(a, b) == pc]
                    if cands:
                        a, b = self.rng.choice(cands)
                        n, self._pending_m = a - 1, b - 1
            if self.cap is not None:
                n = min(n, self.cap)
            raw = n
            role = "counter"
        elif key == "IDF038":
            n = self.layer["N_1"]
            raw = self.rng.randint(0, n) if self.cstrat not in ("max",) else n
            if getattr(self, "_pending_m", None) is not None and self._pending_m <= n:
                raw = self._pending_m
            role = "counter"
        elif key in self.counters:
            raw = self._count_value(width, name)
            role = "counter"
            # real-world TEXT for string groups: the code units that follow this counter spell a word from VOCAB
            # (antenna / receiver descriptors, CRS names ...) and the counter is its length
            self._curword = None
            word = self.force.get("__word__") if self.force else None
            if word is None and width <= 8 and self.vstrat in ("random", "mixed") and self.cstrat != "zero" \
                    and self.rng.random() < 0.3:
                word = self.rng.choice(VOCAB)
            if word and len(word) <= (1 << width) - 1 and (self.cap is None or len(word) <= self.cap):
                raw = len(word)
                self._curword = word
        elif key in self.conds:
            raw = self.rng.getrandbits(width) if self.vstrat not in ("zero", "ones") else (
                0 if self.vstrat == "zero" else (1 << width) - 1)
            role = "cond"
        elif typ == "STR":
            raw = self.rng.randint(1, 255)  # zero code units kept out of the value oracle
            if self.vstrat == "ones":
                raw = 255
            cw = getattr(self, "_curword", None)
            if cw and index and index[-1] <= len(cw):
                raw = ord(cw[index[-1] - 1]) & 0xFF or 0x20
        elif typ == "CHA":
            raw = self._rand_value(width, typ)
            cw = getattr(self, "_curword", None)
            if cw and index and index[-1] <= len(cw):
                raw = ord(cw[index[-1] - 1]) & ((1 << width) - 1)
        else:
            raw = self._rand_value(width, typ)
        start, end = self.w.put(raw, width)
        if self.w.n > MAXBITS and self.source is None:
            raise TooLong()
        val = decode_value(typ, width, res, raw)
        self.fields.append(dict(key=key, name=name, start=start, width=width, typ=typ, raw=raw,
                                role=role if typ != "STR" else "str", index=tuple(index), res=res))
        if typ == "STR":
            if key in self.strs:
                i = self.strs[key]
                n0, v0, k0 = self.expected[i]
                self.expected[i] = (n0, v0 + val, k0)
            else:
                self.strs[key] = len(self.expected)
                self.expected.append((key, val, "data"))
            self.values[key] = self.expected[self.strs[key]][1]
            return
        self.expected.append((name, val, "data"))
        self.values[name] = val
        # ---- derived attributes
        if key == "DF394":
            self.meta["satmask"] = raw
            self.meta["sats"] = [i for i in range(1, 65) if (raw >> (64 - i)) & 1]
            self.expected.append(("NSat", len(self.meta["sats"]), "count"))
            self.values["NSat"] = len(self.meta["sats"])
        elif key == "DF395":
            self.meta["sigmask"] = raw
            self.meta["sigs"] = [i for i in range(1, 33) if (raw >> (32 - i)) & 1]
            self.expected.append(("NSig", len(self.meta["sigs"]), "count"))
            self.values["NSig"] = len(self.meta["sigs"])
        elif key == "DF396":
            self.meta["cellmask"] = raw
            self.meta["cellwidth"] = width
            _, _, cells = refmsm.scan_masks(self.meta["satmask"], self.meta["sigmask"], raw)
            self.meta["cells"] = cells
            self.expected.append(("NCell", len(cells), "count"))
            self.values["NCell"] = len(cells)
        elif key == "IDF037":
            self.layer["N_1"] = raw
        elif key == "IDF038":
            n = self.layer["N_1"] + 1
            m = raw + 1
            nc = (n + 1) * (n + 2) // 2 - (n - m) * (n - m + 1) // 2
            self.values["_NHarmCoeffC"] = nc
            self.values["_NHarmCoeffS"] = nc - (n + 1)
            self.meta.setdefault("layers", []).append((n, m, nc, nc - (n + 1)))

    def _walk(self, pdict, index):
        if not isinstance(pdict, dict):
            raise DefinitionError(
                f"{self.identity}: group body is {type(pdict).__name__}, not a dict: {pdict!r}")
        for key, val in pdict.items():
            if isinstance(val, tuple):
                gtyp, gdict = val
                if isinstance(gtyp, tuple):
                    cname, cval = gtyp
                    if cname not in self.values:
                        raise DefinitionError(
                            f"{self.identity}: condition on {cname!r} which is not decoded earlier")
                    if self.values[cname] == cval:
                        self._walk(gdict, index)
                    continue
                if isinstance(gtyp, int) and not isinstance(gtyp, bool):
                    count = gtyp
                else:
                    cname = gtyp
                    if "+" in cname:
                        cname, lvl = cname.split("+")
                        for i in range(int(lvl)):
                            cname += f"_{index[i]:02d}"
                    if cname not in self.values:
                        raise DefinitionError(
                            f"{self.identity}: repeat count {cname!r} is not decoded earlier")
                    count = self.values[cname]
                    if cname == "IDF035":
                        count += 1
                    if not isinstance(count, int):
                        raise DefinitionError(f"{self.identity}: repeat count {cname!r} not integral")
                for i in range(1, count + 1):
                    self._walk(gdict, index + [i])
            else:
                self._emit(key, index)

    def build(self):
        self._walk(self.pdict, [])
        e = Encoded()
        e.identity = self.identity
        e.nbits = self.w.n
        e.payload = self.w.bytes(1 if self.pad1 else 0)
        e.fields = self.fields
        e.expected = self.expected
        e.meta = self.meta
        e.strategy = (self.vstrat, self.cstrat, self.mstrat, self.cap)
        return e


def build(identity, rng, vstrat="random", cstrat="small", mstrat="random", force=None,
          maxcells=64, pad1=False, tabs=None):
    """Build one reference message, shrinking counters until it fits in 1023 bytes."""
    cap = None
    state = rng.getstate()
    for _ in range(40):
        try:
            rng.setstate(state)
            return Builder(identity, rng, vstrat, cstrat, mstrat, cap, force, maxcells, pad1, tabs=tabs).build()
        except TooLong:
            if cap is None:
                cap = 255
            cap = int(cap * 0.8) if cap > 4 else cap - 1
            if cap < 0:
                break
            if force:
                force = None if cap < 2 else force
    raise RuntimeError(f"cannot fit {identity} into 1023 bytes")


def decode(identity, payload, tabs=None):
    """Reference DECODER: walk the definition over given bytes (tabs: other definition tables, e.g. the pinned ones).

    Returns an Encoded-like object (expected attributes, fields, nbits) or raises Short when the
    payload cannot hold what it announces. STR zero units / M>N are flagged in meta, not judged.
    """
    b = Builder(identity, None, source=payload, tabs=tabs)
    e = b.build()
    e.payload = payload
    e.meta["zero_str"] = b.zero_str
    e.meta["m_gt_n"] = any(m > n for n, m, _, _ in e.meta.get("layers", []))
    return e


def public_attrs(msg):
    """Ordered public attributes of a parsed message (boundary observation)."""
    return [(k, v) for k, v in msg.__dict__.items() if not k.startswith("_")]


def values_equal(a, b):
    import math

    if isinstance(a, bool) or isinstance(b, bool):
        return a is b
    if isinstance(a, (int, float)) and isinstance(b, (int, float)):
        if isinstance(a, int) and isinstance(b, int):
            return a == b
        return math.isclose(a, b, rel_tol=1e-12, abs_tol=0.0)
    return type(a) is type(b) and a == b


def compare(enc, msg, check_labels=False):
    """Compare a parsed message with the expectation. Returns None or a description."""
    got = public_attrs(msg)
    gd = dict(got)
    if len(gd) != len(got):
        return "duplicate attribute names"
    exp = enc.expected
    ed = {n: (v, k) for n, v, k in exp}
    missing = [n for n in ed if n not in gd]
    extra = [n for n in gd if n not in ed]
    if missing or extra:
        return f"attribute names differ: missing {missing[:6]} extra {extra[:6]}"
    for n, (v, k) in ed.items():
        if k == "label":
            continue
        if not values_equal(gd[n], v):
            return f"attribute {n}: parsed {gd[n]!r}, bits encode {v!r}"
    return None


def compare_pinned(enc, msg, fields):
    """Compare a parsed message with an expectation built from PINNED layouts (vf.stdlayout).
    Fields whose resolution is not pinned (None) are compared by sign and zero-ness only."""
    got = dict(public_attrs(msg))
    ed = {n: (v, k) for n, v, k in enc.expected}
    missing = [n for n in ed if n not in got]
    extra = [n for n in got if n not in ed]
    if missing or extra:
        return f"attribute names differ from the standard layout: missing {missing[:6]} extra {extra[:6]}"
    resof = {}
    for f in enc.fields:
        resof[f["name"] if f["typ"] != "STR" else f["key"]] = f.get("res", 0)
    for n, (v, k) in ed.items():
        if k == "label":
            continue
        g = got[n]
        if resof.get(n, 0) is None:
            if isinstance(g, (int, float)) and not isinstance(g, bool):
                if (g > 0) != (v > 0) or (g < 0) != (v < 0):
                    return f"attribute {n}: parsed {g!r}, standard representation gives sign of {v!r}"
            continue
        if not values_equal(g, v):
            return f"attribute {n}: parsed {g!r}, standard layout encodes {v!r}"
    return None
