"""Readers built the way the documentation's signature allows: leading options passed POSITIONALLY.

The documented constructor order is pinned here (README / docstring of RTCMReader.__init__):
    RTCMReader(datastream, validate, quitonerror, labelmsm, bufsize, parsed, errorhandler, encoding)
`make_reader(cls, stream, npos, **options)` passes the first `npos` of them by position (a missing one with its
documented default) and the rest by keyword.  A signature that has been made keyword-only is a permitted
refactoring: the TypeError about positional arguments falls back to the all-keyword call.
"""

ORDER = ("validate", "quitonerror", "labelmsm", "bufsize", "parsed", "errorhandler", "encoding")
DEFAULTS = {"validate": 1, "quitonerror": 1, "labelmsm": 1, "bufsize": 4096, "parsed": True, "errorhandler": None,
            "encoding": 0}
NPOS = (0, 2, 0, 5, 3, 7, 0, 6)


def npos_for(tag):
    return NPOS[tag % len(NPOS)]


def make_reader(cls, stream, npos, **kw):
    if npos <= 0:
        return cls(stream, **kw)
    names = ORDER[:npos]
    pos = [kw.pop(n, DEFAULTS[n]) for n in names]
    try:
        return cls(stream, *pos, **kw)
    except TypeError as e:
        if "positional" not in str(e):
            raise
        return cls(stream, **dict(zip(names, pos)), **kw)
