"""Check driver: fan-out to subprocess workers, aggregation, three-valued verdict, evidence."""

import hashlib
import importlib
import json
import os
import random
import subprocess
import sys
import time
import traceback

from vf import REPO, REPO_SRC, VERIF_DIR, ensure_deps

NWORKERS = int(os.environ.get("VERIF_WORKERS", "16"))
MAX_VIOL_PER_WORKER = 12
SIG_CAP = 600000  # per worker: beyond this, distinct_nontrivial becomes a measured LOWER bound
WORKDIR = os.path.join(VERIF_DIR, ".work")
EVIDENCE_DIR = os.path.join(VERIF_DIR, "evidence")
REPLAY_DIR = os.path.join(VERIF_DIR, "replays")
KNOWN_FILE = os.path.join(VERIF_DIR, "KNOWN_FINDINGS.txt")


class StopWorkload(Exception):
    """Raised inside a worker when enough violations were collected."""


def sig64(material) -> int:
    if isinstance(material, str):
        material = material.encode()
    elif not isinstance(material, (bytes, bytearray)):
        material = repr(material).encode()
    return int.from_bytes(hashlib.blake2b(material, digest_size=8).digest(), "big")


class Ctx:
    """Per-worker context handed to a check module."""

    def __init__(self, prop, tier, seed, worker, nworkers, replaying=False):
        self.prop = prop
        self.tier = tier
        self.seed = seed
        self.worker = worker
        self.nworkers = nworkers
        self.replaying = replaying
        self.rng = random.Random(seed * 1000003 + worker * 7919 + sig64(prop) % 1000)
        self.evaluations = 0
        self.sigs = set()
        self.nontrivial = 0
        self.sig_capped = False
        self.counters = {}
        self.samples = []
        self.violations = []
        self.notes = {}
        self.quick = tier == "quick"
        self._enum = 0

    # ---- workload helpers
    def n(self, quick, thorough):
        """Budget by tier (total over all workers -> share of this worker, at least 1)."""
        total = quick if self.quick else thorough
        share = total // self.nworkers + (1 if self.worker < total % self.nworkers else 0)
        return max(share, 1) if total > 0 else 0

    def mine(self, i=None):
        """Round-robin partition of a deterministic enumeration between workers."""
        if i is None:
            i = self._enum
            self._enum += 1
        return i % self.nworkers == self.worker

    def case(self, sig, nontrivial=True, n=1):
        self.evaluations += n
        if nontrivial:
            self.nontrivial += 1
            if len(self.sigs) < SIG_CAP:
                self.sigs.add(sig64(sig))
            else:
                self.sig_capped = True

    def hit(self, key, n=1):
        self.counters[key] = self.counters.get(key, 0) + n

    def sample(self, obj, limit=2):
        if len(self.samples) < limit:
            self.samples.append(obj)

    def note(self, key, value):
        self.notes[key] = value

    def violation(self, mechanism, message, params):
        """Record a violation. params must be JSON-serialisable and sufficient for replay()."""
        self.violations.append(
            {"mechanism": mechanism, "message": str(message)[:2000], "params": params,
             "hashseed": os.environ.get("PYTHONHASHSEED", ""), "optimize": int(sys.flags.optimize),
             "werror": int(any(str(o).startswith("error") for o in sys.warnoptions))}
        )
        if self.replaying:
            return
        if len(self.violations) >= MAX_VIOL_PER_WORKER:
            raise StopWorkload()


def source_digest():
    h = hashlib.sha256()
    pdir = os.path.join(REPO_SRC, "pyrtcm")
    for fn in sorted(os.listdir(pdir)):
        if fn.endswith(".py"):
            h.update(fn.encode())
            with open(os.path.join(pdir, fn), "rb") as f:
                h.update(f.read())
    return h.hexdigest()


def load_known():
    """Parse KNOWN_FINDINGS.txt -> {prop: {key: text}} for 'finding:' lines only."""
    known = {}
    if not os.path.exists(KNOWN_FILE):
        return known
    with open(KNOWN_FILE, encoding="utf-8") as f:
        for line in f:
            line = line.strip()
            if not line.startswith("finding:"):
                continue
            parts = line[len("finding:") :].split()
            kv = dict(p.split("=", 1) for p in parts[:2] if "=" in p)
            if "property" in kv and "key" in kv:
                known.setdefault(kv["property"], {})[kv["key"]] = " ".join(parts[2:])
    return known


def load_module(prop):
    return importlib.import_module(f"vf.checks.{prop.lower()}")


def assert_repo():
    import pyrtcm

    path = os.path.abspath(pyrtcm.__file__)
    if not path.startswith(os.path.abspath(REPO_SRC)):
        raise RuntimeError(f"pyrtcm imported from {path}, expected under {REPO_SRC}")


# ------------------------------------------------------------------------------------ worker
def worker_main(prop, tier, seed, worker, nworkers, out):
    import faulthandler

    faulthandler.enable()
    ensure_deps()
    assert_repo()
    mod = load_module(prop)
    ctx = Ctx(prop, tier, seed, worker, nworkers)
    from vf import common as _common

    _common.quiet_logging()  # (one worker in three: library logger at DEBUG with a formatting handler)
    t0 = time.time()
    status = "ok"
    err = None
    try:
        mod.run(ctx)
    except StopWorkload:
        status = "stopped-after-violations"
    except Exception:  # harness failure: never a verdict
        status = "harness-error"
        err = traceback.format_exc()
    res = {
        "worker": worker,
        "status": status,
        "error": err,
        "evaluations": ctx.evaluations,
        "sigs": [],
        "nsigs": len(ctx.sigs),
        "nontrivial": ctx.nontrivial,
        "sig_capped": ctx.sig_capped,
        "counters": ctx.counters,
        "samples": ctx.samples,
        "violations": ctx.violations,
        "notes": ctx.notes,
        "wall_s": round(time.time() - t0, 3),
    }
    from array import array

    with open(out + ".sigs", "wb") as f:
        array("Q", sorted(ctx.sigs)).tofile(f)
    with open(out, "w", encoding="utf-8") as f:
        json.dump(res, f)


# ------------------------------------------------------------------------------------ driver
def _merge_counters(dst, src):
    for k, v in src.items():
        if isinstance(v, (int, float)):
            dst[k] = dst.get(k, 0) + v


def drive(prop, tier, seed):
    t0 = time.time()
    ensure_deps()
    mod = load_module(prop)
    os.makedirs(WORKDIR, exist_ok=True)
    os.makedirs(EVIDENCE_DIR, exist_ok=True)
    nworkers = getattr(mod, "WORKERS", NWORKERS)
    timeout = getattr(mod, "TIMEOUT", {"quick": 600, "thorough": 5400})[tier]
    procs = []
    tag = f"{prop}-{os.getpid()}"
    for w in range(nworkers):
        out = os.path.join(WORKDIR, f"{tag}-{w}.json")
        env = dict(os.environ)
        # every worker hashes str/bytes differently (set / dict-of-str iteration order is part of the environment
        # the properties quantify over); deterministic per (seed, worker), recorded in the replay file
        env["PYTHONHASHSEED"] = str((seed * 31 + w) % 4294967295)
        env["PYTHONDONTWRITEBYTECODE"] = "1"
        env["VERIF_REPO"] = REPO
        # one worker in four runs the interpreter with -O (asserts stripped, __debug__ False): the properties do not
        # depend on the interpreter mode; internal icontract monitors are then off in that worker (evidence only)
        cmd = [
            sys.executable,
            "-B",
        ] + (["-O"] if w % 4 == 3 else []) + (["-W", "error"] if w % 4 == 2 else []) + [  # (w%4==2: warnings raise)
            os.path.join(VERIF_DIR, "check.py"),
            prop,
            "--tier",
            tier,
            "--seed",
            str(seed),
            "--worker",
            str(w),
            "--nworkers",
            str(nworkers),
            "--out",
            out,
        ]
        logf = open(os.path.join(WORKDIR, f"{tag}-{w}.log"), "wb")
        procs.append((w, out, logf, subprocess.Popen(cmd, env=env, stdout=logf, stderr=logf, cwd=VERIF_DIR)))

    results = []
    problems = []
    deadline = time.time() + timeout
    for w, out, logf, p in procs:
        try:
            p.wait(timeout=max(1, deadline - time.time()))
        except subprocess.TimeoutExpired:
            p.kill()
            p.wait()
            problems.append(f"worker {w}: wall-clock watchdog fired after {timeout}s")
        logf.close()
        logpath = logf.name
        if os.path.exists(out):
            with open(out, encoding="utf-8") as f:
                r_ = json.load(f)
            if os.path.exists(out + ".sigs"):
                from array import array

                a_ = array("Q")
                with open(out + ".sigs", "rb") as f:
                    a_.frombytes(f.read())
                r_["sigs"] = a_
                os.remove(out + ".sigs")
            results.append(r_)
            os.remove(out)
        else:
            tail = ""
            try:
                with open(logpath, "rb") as f:
                    tail = f.read()[-1500:].decode("utf-8", "replace")
            except OSError:
                pass
            problems.append(f"worker {w}: no result (exit {p.returncode}) {tail}")
        try:
            os.remove(logpath)
        except OSError:
            pass

    evaluations = 0
    sigs = set()
    counters = {}
    samples = []
    violations = []
    notes = {}
    for r in results:
        evaluations += r["evaluations"]
        sigs.update(r["sigs"])
        _merge_counters(counters, r["counters"])
        samples.extend(r["samples"][:2])
        violations.extend(r["violations"])
        for k, v in r["notes"].items():
            notes.setdefault(k, v)
        if r["status"] == "harness-error":
            problems.append(f"worker {r['worker']}: harness error\n{r['error']}")

    # gates: monitors that must have been evaluated, coverage classes that must have been seen
    gates = getattr(mod, "GATES", [])
    if tier == "thorough":
        gates = gates + getattr(mod, "GATES_THOROUGH", [])
    missing = [g for g in gates if counters.get(g, 0) <= 0]
    missing += [g + "!=0" for g in getattr(mod, "GATES_ZERO", []) if counters.get(g, 0) != 0]

    # known findings
    known = load_known().get(prop, {})
    new_viol = [v for v in violations if v["mechanism"] not in known]
    known_hit = {}
    for v in violations:
        if v["mechanism"] in known:
            known_hit.setdefault(v["mechanism"], v)

    level = getattr(mod, "LEVEL", "exploration")
    capped = any(r.get("sig_capped") for r in results)
    coverage = {
        "evaluations": evaluations,
        "distinct_nontrivial": len(sigs),
        "nontrivial_cases": sum(r.get("nontrivial", 0) for r in results),
        "distinct_nontrivial_is_lower_bound": capped,
        "rule": getattr(mod, "RULE", ""),
        "samples": samples[:6],
        "counters": dict(sorted(counters.items())),
        "gates": {g: counters.get(g, 0) for g in gates},
        "workers": len(results),
    }
    if hasattr(mod, "finalize"):
        try:
            coverage.update(mod.finalize(tier, counters, notes) or {})
        except Exception:
            problems.append("finalize failed: " + traceback.format_exc())
    import re as _re

    for k, v in notes.items():
        if not _re.search(r"_w\d+$", k):
            coverage.setdefault(k, v)

    verdict = "held-on-observed"
    if new_viol:
        verdict = "violated"
    elif problems or missing or evaluations == 0 or len(sigs) < 2:
        verdict = "inconclusive"
    coverage["verdict"] = verdict
    if missing:
        coverage["gates_not_reached"] = missing
    if problems:
        coverage["problems"] = [p[:600] for p in problems[:8]]

    evidence = {
        "property_id": prop,
        "tier": tier,
        "seed": seed,
        "level": level,
        "coverage": coverage,
        "assumptions": getattr(mod, "ASSUMPTIONS", []),
        "wall_s": round(time.time() - t0, 2),
        "violations": len(new_viol),
        "known_findings_reported": sorted(known_hit),
        "source_sha256": source_digest(),
        "repo": REPO,
        "python": sys.version.split()[0],
    }
    evpath = os.path.join(EVIDENCE_DIR, f"{prop}.json")
    if os.environ.get("VERIF_NO_EVIDENCE") != "1":
        with open(evpath, "w", encoding="utf-8") as f:
            json.dump(evidence, f, indent=1, default=str)
            f.write("\n")

    for key, v in sorted(known_hit.items()):
        print(f"KNOWN-FINDING: property={prop} key={key} {known[key]} [{v['message'][:160]}]")

    print(
        f"{prop} tier={tier} seed={seed} evaluations={evaluations} distinct_nontrivial={len(sigs)} "
        f"violations={len(new_viol)} verdict={verdict} wall={evidence['wall_s']}s"
    )
    if new_viol:
        os.makedirs(REPLAY_DIR, exist_ok=True)
        seen = set()
        for v in new_viol:
            s = f"{sig64(json.dumps(v['params'], sort_keys=True, default=str)):016x}"
            if s in seen:
                continue
            seen.add(s)
            path = os.path.join(REPLAY_DIR, f"{prop}-{s}.json")
            with open(path, "w", encoding="utf-8") as f:
                json.dump(
                    {
                        "property": prop,
                        "mechanism": v["mechanism"],
                        "message": v["message"],
                        "params": v["params"],
                        "tier": tier,
                        "seed": seed,
                        "hashseed": v.get("hashseed", ""),
                        "optimize": v.get("optimize", 0),
                        "werror": v.get("werror", 0),
                    },
                    f,
                    indent=1,
                    default=str,
                )
            print(f"  mechanism={v['mechanism']}: {v['message'][:300]}")
            print(f"VIOLATION property={prop} replay={path}")
            if len(seen) >= 10:
                break
        return 1
    if verdict == "inconclusive":
        why = "; ".join(
            ([f"gates not reached: {missing}"] if missing else [])
            + [p[:400] for p in problems[:3]]
            + (["nothing observed"] if evaluations == 0 else [])
        )
        print(f"INCONCLUSIVE property={prop} {why}")
        return 2
    return 0


def replay(prop, path):
    ensure_deps()
    assert_repo()
    mod = load_module(prop)
    with open(path, encoding="utf-8") as f:
        rep = json.load(f)
    hs = str(rep.get("hashseed", ""))
    opt = int(rep.get("optimize", 0) or 0)
    werr = int(rep.get("werror", 0) or 0)
    if os.environ.get("VERIF_REEXEC") != "1" and (
            (hs and os.environ.get("PYTHONHASHSEED", "") != hs) or opt != int(sys.flags.optimize) or werr):
        # reproduce under the same string-hash seed and interpreter mode as the worker that observed the violation
        env = dict(os.environ, VERIF_REEXEC="1")
        if hs:
            env["PYTHONHASHSEED"] = hs
        return subprocess.call([sys.executable, "-B"] + (["-O"] if opt else []) + (["-W", "error"] if werr else [])
                               + sys.argv, env=env)
    ctx = Ctx(prop, rep.get("tier", "quick"), rep.get("seed", 0), 0, 1, replaying=True)
    mod.replay(ctx, rep["params"])
    if ctx.violations:
        for v in ctx.violations:
            print(f"  mechanism={v['mechanism']}: {v['message']}")
        print(f"VIOLATION property={prop} replay={path}")
        return 1
    print(f"{prop} replay: no violation reproduced on the current tree")
    return 0
