#!/usr/bin/env python3
"""import_seed.py Cxx 'needs...' for k in 1,2: copy /tmp/wt-Cxx/seed_out/Cxx-k into seeded/."""
import json, os, shutil, sys
pid = sys.argv[1]
V = os.path.dirname(os.path.dirname(os.path.abspath(__file__)))
for k in (1, 2):
    src = f"/tmp/wt-{pid}/seed_out/{pid}-{k}"
    if not os.path.isdir(src):
        print("missing", src); continue
    dst = os.path.join(V, "seeded", f"{pid}-{k}")
    os.makedirs(dst, exist_ok=True)
    for f in ("patch.diff", "demo.py", "NOTES.md"):
        shutil.copy(os.path.join(src, f), dst)
    notes = open(os.path.join(dst, "NOTES.md")).read()
    meta = {"id": f"{pid}-{k}", "property": pid, "origin": "fresh sub-agent given only the property text and a scratch worktree",
            "needs": sys.argv[1 + k] if len(sys.argv) > 1 + k else "", "notes_file": "NOTES.md"}
    json.dump(meta, open(os.path.join(dst, "meta.json"), "w"), indent=1)
    print("imported", dst)
