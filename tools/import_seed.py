#!/usr/bin/env python3
"""import_seed.py Cxx [id=needs ...]: copy every /tmp/wt-Cxx/seed_out/Cxx-k into seeded/ (new ones only)."""
import json, os, shutil, sys
pid = sys.argv[1]
needs = dict(a.split("=", 1) for a in sys.argv[2:] if "=" in a)
pos = [a for a in sys.argv[2:] if "=" not in a]
V = os.path.dirname(os.path.dirname(os.path.abspath(__file__)))
root = f"/tmp/wt-{pid}/seed_out"
for i, name in enumerate(sorted(d for d in os.listdir(root) if d.startswith(pid + "-") and os.path.isdir(os.path.join(root, d)))):
    src = os.path.join(root, name)
    dst = os.path.join(V, "seeded", name)
    if os.path.exists(dst):
        continue
    os.makedirs(dst)
    for f in ("patch.diff", "demo.py", "NOTES.md"):
        shutil.copy(os.path.join(src, f), dst)
    auto = ""
    try:
        import re
        notes = open(os.path.join(dst, "NOTES.md"), encoding="utf-8", errors="replace").read()
        cand = [l.strip(" -*#") for l in notes.splitlines()
                if re.search(r"\b(needs?|trigger|manifest|only (shows|when|for)|requires?)\b", l, re.I) and len(l.strip()) > 25]
        auto = (cand[0] if cand else notes.strip().splitlines()[0].strip(" #"))[:300]
    except Exception:
        pass
    meta = {"id": name, "property": pid, "origin": "fresh sub-agent given only the property text and a scratch worktree",
            "needs": needs.get(name, pos[i] if i < len(pos) else auto), "notes_file": "NOTES.md"}
    json.dump(meta, open(os.path.join(dst, "meta.json"), "w"), indent=1)
    print("imported", dst)
