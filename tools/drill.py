#!/venv/bin/python -B
"""Break drills: apply a one-line change to a scratch copy of /repo, run the repo's own tests
there, run the property's quick check against the copy (VERIF_REPO), delete the copy.

  drill.py --list
  drill.py --all [--props C01,C05] [--no-tests] [--tier quick]
  drill.py --id c01-hdrmask
  drill.py --patch FILE.diff --props C02        (a seeded patch from /verif/seeded/*/patch.diff)

A drill is caught when the check exits 1 and prints a VIOLATION line for the property.
Results are appended to mutants/RESULTS.jsonl (not evidence; a lab notebook).
"""

import argparse
import json
import os
import shutil
import subprocess
import sys
import tempfile
import time

VERIF = os.path.dirname(os.path.dirname(os.path.abspath(__file__)))
REPO = "/repo"
PY = "/venv/bin/python"


def make_copy():
    d = tempfile.mkdtemp(prefix="pyrtcm-drill-", dir="/tmp")
    shutil.copytree(os.path.join(REPO, "src"), os.path.join(d, "src"),
                    ignore=shutil.ignore_patterns("__pycache__", "*.egg-info"))
    shutil.copytree(os.path.join(REPO, "tests"), os.path.join(d, "tests"),
                    ignore=shutil.ignore_patterns("__pycache__"))
    for f in ("pyproject.toml",):
        if os.path.exists(os.path.join(REPO, f)):
            shutil.copy(os.path.join(REPO, f), d)
    return d


def apply_edit(d, drill):
    edits = drill.get("edits") or [drill]
    for e in edits:
        path = os.path.join(d, e["file"])
        with open(path, encoding="utf-8") as f:
            s = f.read()
        if s.count(e["old"]) < 1:
            raise SystemExit(f"drill {drill['id']}: pattern not found in {e['file']}: {e['old']!r}")
        s = s.replace(e["old"], e["new"], e.get("count", 1))
        with open(path, "w", encoding="utf-8") as f:
            f.write(s)


def apply_patch(d, patch):
    r = subprocess.run(["patch", "-p1", "-s", "-i", os.path.abspath(patch)], cwd=d,
                       capture_output=True, text=True)
    if r.returncode != 0:
        raise SystemExit(f"patch failed: {r.stdout}{r.stderr}")


def run_tests(d):
    env = dict(os.environ, PYTHONPATH=os.path.join(d, "src"), PYTHONDONTWRITEBYTECODE="1")
    r = subprocess.run([PY, "-B", "-m", "pytest", "-q", "-x", "-p", "no:cacheprovider", "tests"],
                       cwd=d, env=env, capture_output=True, text=True)
    tail = (r.stdout.strip().splitlines() or ["?"])[-1]
    return r.returncode == 0, tail


def run_check(d, prop, tier, seed=0):
    env = dict(os.environ, VERIF_REPO=d, VERIF_NO_EVIDENCE="1", VERIF_SEED=str(seed))
    t = time.time()
    r = subprocess.run([PY, "-B", os.path.join(VERIF, "check.py"), prop, "--tier", tier],
                       cwd=VERIF, env=env, capture_output=True, text=True)
    viol = [l for l in r.stdout.splitlines() if l.startswith("VIOLATION")]
    mech = [l.strip() for l in r.stdout.splitlines() if l.strip().startswith("mechanism=")]
    return r.returncode, len(viol), (mech[0][:200] if mech else r.stdout.strip().splitlines()[-1][:200]
                                     if r.stdout.strip() else r.stderr[-300:]), round(time.time() - t, 1)


def main():
    ap = argparse.ArgumentParser()
    ap.add_argument("--list", action="store_true")
    ap.add_argument("--all", action="store_true")
    ap.add_argument("--id")
    ap.add_argument("--patch")
    ap.add_argument("--props")
    ap.add_argument("--no-tests", action="store_true")
    ap.add_argument("--tier", default="quick")
    a = ap.parse_args()
    with open(os.path.join(VERIF, "mutants", "drills.json"), encoding="utf-8") as f:
        drills = json.load(f)
    if a.list:
        for d in drills:
            print(d["id"], d["props"], d.get("note", ""))
        return
    todo = []
    if a.patch:
        todo = [{"id": os.path.basename(os.path.dirname(os.path.abspath(a.patch))) or a.patch,
                 "props": a.props.split(","), "patch": a.patch}]
    elif a.id:
        todo = [d for d in drills if d["id"] in a.id.split(",")]
    elif a.all:
        todo = drills
        if a.props:
            want = set(a.props.split(","))
            todo = [d for d in drills if want & set(d["props"])]
    missed = 0
    for drill in todo:
        d = make_copy()
        try:
            if "patch" in drill:
                apply_patch(d, drill["patch"])
            else:
                apply_edit(d, drill)
            tests_ok, tail = (None, "skipped") if (a.no_tests or drill.get("no_tests")) else run_tests(d)
            props = drill["props"] if not (a.props and not a.patch) else [
                p for p in drill["props"] if p in a.props.split(",")]
            for prop in props:
                rc, nviol, info, wall = run_check(d, prop, a.tier)
                caught = rc == 1 and nviol > 0
                expect = not drill.get("equivalent", False)
                missed += 0 if caught == expect else 1
                rec = {"id": drill["id"], "prop": prop, "tests_pass": tests_ok, "tests": tail,
                       "exit": rc, "caught": caught, "expected_caught": expect, "info": info, "wall_s": wall, "tier": a.tier}
                print(json.dumps(rec))
                with open(os.path.join(VERIF, "mutants", "RESULTS.jsonl"), "a", encoding="utf-8") as f:
                    f.write(json.dumps(rec) + "\n")
        finally:
            shutil.rmtree(d, ignore_errors=True)
    sys.exit(1 if missed else 0)


if __name__ == "__main__":
    main()
