#!/venv/bin/python -B
"""False-alarm drill: run EVERY property's quick check against behaviour-preserving refactorings.

  refactors.py DIR [--props C01,C02] [--tier quick]

DIR holds <name>/patch.diff (+ NOTES.md). For each patch: scratch copy of /repo, apply, run the repo's tests,
run the checks with VERIF_REPO pointing at the copy. Any VIOLATION / INCONCLUSIVE is printed for adjudication
(either the refactoring is not behaviour-preserving after all, or the check demands too much / leans on internals).
Results are written to DIR/RESULTS.json.
"""

import argparse
import json
import os
import shutil
import sys

VERIF = os.path.dirname(os.path.dirname(os.path.abspath(__file__)))
sys.path.insert(0, os.path.join(VERIF, "tools"))
import drill  # noqa: E402

ALL = [f"C{i:02d}" for i in range(1, 20)]


def main():
    ap = argparse.ArgumentParser()
    ap.add_argument("dir")
    ap.add_argument("--props")
    ap.add_argument("--tier", default="quick")
    ap.add_argument("--only")
    a = ap.parse_args()
    props = a.props.split(",") if a.props else ALL
    out = {}
    names = sorted(d for d in os.listdir(a.dir) if os.path.exists(os.path.join(a.dir, d, "patch.diff")))
    if a.only:
        names = [n for n in names if n in a.only.split(",")]
    for name in names:
        d = drill.make_copy()
        try:
            drill.apply_patch(d, os.path.join(a.dir, name, "patch.diff"))
            ok, tail = drill.run_tests(d)
            res = {"tests_pass": ok, "tests": tail, "checks": {}}
            for prop in props:
                rc, nviol, info, wall = drill.run_check(d, prop, a.tier)
                res["checks"][prop] = {"exit": rc, "info": info if rc else "", "wall_s": wall}
                if rc:
                    print(f"ALARM {name} {prop} exit={rc}: {info[:220]}")
            out[name] = res
            quiet = sum(1 for v in res["checks"].values() if v["exit"] == 0)
            print(f"{name}: tests_pass={ok} ({tail}); {quiet}/{len(props)} checks silent")
        finally:
            shutil.rmtree(d, ignore_errors=True)
    rp = os.path.join(a.dir, "RESULTS.json")
    merged = {}
    if os.path.isfile(rp):
        with open(rp) as f:
            merged = json.load(f)
    merged.update(out)  # a partial run (--only) keeps the other entries
    with open(rp, "w") as f:
        json.dump(merged, f, indent=1, sort_keys=True)


if __name__ == "__main__":
    main()
