import sys
def edit(path, old, new, count=1):
    s = open(path, newline='').read()
    crlf = '\r\n' in s
    if crlf:
        old = old.replace('\n', '\r\n'); new = new.replace('\n', '\r\n')
    assert s.count(old) == count, (path, s.count(old))
    open(path, 'w', newline='').write(s.replace(old, new))
