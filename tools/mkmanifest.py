#!/usr/bin/env python3
"""Regenerate MANIFEST.json from the table below; a property is claimed iff its check module exists."""

import json
import os

VERIF = os.path.dirname(os.path.dirname(os.path.abspath(__file__)))
PY = "/venv/bin/python -B"

P = {
    "C01": ("fault_enumeration", "3-C01",
            "offline checker over delivered-frame events of a fault-injecting recording stream "
            "(greedy slice matching + reference CRC)",
            "Every (raw, parsed) the real reader returns over hostile streams is checked against the source bytes, "
            "an independent CRC/length/reserved-bit test and own header arithmetic; one fault of each kind is "
            "enumerated at every read-call index of small streams, random fault mixes on larger ones, all error modes. "
            "Held = on the executions observed; reach comes from stream and fault diversity.",
            "Trusted: vf.refcrc (two cross-checked CRC references), the stream double's file semantics. "
            "Does not cover streams/fault placements no workload produced."),
    "C02": ("exploration", "3-C02",
            "producer/consumer exactly-once-in-order checker on delivered frames + read-call step budget",
            "Generated sequences of valid frames (all implemented types, unknown types, payload 0/1/2/255/256/1023), "
            "NMEA, UBX and inert noise are iterated through the real reader over file-like, buffered and socket "
            "backends; the delivered raw sequence must equal the producer's list of number-carrying frames and "
            "iteration must stop within a logical read budget.",
            "Trusted: generator's own frame list, reference CRC. Exploration of random sequences, not exhaustive."),
    "C03": ("exploration", "3-C03",
            "reference-model monitor: definition-driven encoder/decoder written independently, compared attribute by "
            "attribute; metamorphic single-field and tail-extension relations",
            "For every defined identity, messages are laid out from the definitions by an independent walker with "
            "extreme/random raw values, counts and masks; the real parser's public attributes must equal the "
            "walker's expectation; single-field changes and appended bytes must change nothing else.",
            "Trusted: vf.refmodel engine (independent), the repository's tables read as data (C10 checks those)."),
    "C04": ("exploration", "3-C04",
            "exception-type observer at the three entry points + logical step budgets (read calls)",
            "All 4096 message numbers x short payloads, structure-aware mutants, every buffer length 0..1029 for the "
            "static parser, hostile streams with faults in all modes: only the library's four exception classes may "
            "escape, iterators in ignore/log mode never raise, finite streams finish within a read-call budget.",
            "Trusted: the doubles' step counters. Wall-clock watchdog firing is inconclusive, never a verdict."),
    "C05": ("fault_enumeration", "3-C05",
            "offline checker over the ordered event log (deliver / handler / log record / raised) vs producer list",
            "Streams of valid frames with enumerated and random damage subsets (guaranteed-detectable patterns behind "
            "the header) in all three error modes with and without handler; the event sequence must match exactly.",
            "Trusted: damage classes are those CRC-24Q is guaranteed to detect; reference CRC."),
    "C06": ("exploration", "3-C06",
            "boundary monitor on every truncation + icontract postcondition on the field decoder (offset <= payload bits)",
            "Every whole-byte truncation of minimal-length reference messages (all identities, counts 0/1/max/random) "
            "must be rejected; an icontract postcondition on the real field decoder asserts that no field ends "
            "beyond the payload.",
            "Trusted: refmodel bit lengths. Internal contract is optional evidence; verdict from the boundary."),
    "C07": ("exploration", "3-C07",
            "round-trip monitor with independent framing (reference CRC) incl. every payload length 2..1023",
            "serialize() is compared with independently built frames for every payload length and all defined "
            "identities; parse(serialize(m)), parse(frame).serialize() and eval(repr(m)) round trips are checked.",
            "Trusted: vf.refcrc."),
    "C08": ("exploration", "3-C08",
            "two independent CRC references as oracle; enumeration of single-bit errors, sampled/enumerated 2-bit, odd, "
            "burst<=24 patterns",
            "calc_crc24q is compared with two references on every length 0..1029; all single-bit errors and "
            "guaranteed-detectable classes on frames of many lengths must be rejected with a parse error; with "
            "validation off CRC bytes must not influence the result.",
            "Trusted: GF(2) long-division reference cross-checked against table reference on every input."),
    "C09": ("exploration", "3-C09",
            "reference mask decoder + pinned PRN/RINEX tables compared with parsed MSM attributes",
            "49 MSM types x mask shapes (every satellite bit, every signal bit incl. reserved IDs, dense/random cell "
            "masks) under both label options; counts, PRN order, cell order and labels are checked.",
            "Trusted: pinned tables (RTCM 10403.3; amendment-only IDs accepted as either code or N/A)."),
    "C10": ("exploration", "3-C10",
            "pinned standard geometry: length formulas + sibling relations checked on payloads generated without "
            "the repository's dictionaries",
            "For payloads built from pinned bit geometry alone, the real parser must consume exactly the standard "
            "number of bits (smallest accepted length) and sibling messages must decode identical blocks to "
            "identical value sequences; referential integrity of every definition.",
            "Trusted: vf.stdgeom pinned from RTCM 10403.3 / IGS SSR v1 (post-2016 layouts flagged)."),
    "C11": ("fault_enumeration", "3-C11",
            "conservation invariant after every read on the real SocketWrapper over a scripted socket + "
            "schedule-independence of reader output",
            "Scripted real-socket subclass delivers the stream under enumerated and random recv partitions, bufsizes, "
            "timeouts and OS errors; after every read: len<=k, short only on close/timeout, results+buffer == "
            "received; reader messages equal those over a file.",
            "Trusted: ScriptedSocket semantics (recv clipped to n); real socketpair used in thorough tier."),
    "C12": ("fault_enumeration", "3-C12",
            "all recv partitions of small chunked bodies vs generator's chunk list (reference chunk codec)",
            "HTTP/1.1 chunked streams (optionally gzip/zlib/deflate per chunk) are delivered under every partition "
            "(exhaustive for short encodings) and the bytes read must equal the concatenated chunk bodies.",
            "Trusted: vf.refchunk encoder."),
    "C13": ("exploration", "3-C13",
            "history-free oracle (refmodel / fresh process) vs parses under shuffled histories and threads with "
            "sys.monitoring yield injection; table digests + write barrier",
            "Corpus of all identities and failing inputs parsed under random histories and concurrently from many "
            "threads with forced switches inside the parser; every result must equal the history-free result and "
            "table digests must not change.",
            "Trusted: refmodel expectation; GIL switch injection via sys.monitoring LINE events."),
    "C14": ("exploration", "3-C14",
            "exception-class + before/after snapshot monitor on assignment attempts",
            "Every attribute name present (public, private, properties) and fresh names, on all identities and "
            "unknown stubs, sequences of attempts: must raise the message error and leave all observations unchanged.",
            "Trusted: snapshot covers payload, identity, __dict__, str, repr, serialize."),
    "C15": ("exploration", "3-C15",
            "exhaustive enumeration of the 12-bit number space and 8-bit 4076 sub-type space with own bit arithmetic",
            "All 4096 numbers x tails and all 256 sub-types: identity string, DF002, stub preservation, re-serialisation "
            "and ismsm classification.",
            "Trusted: pinned list of the 49 implemented MSM numbers."),
    "C16": ("exploration", "3-C16",
            "differential monitor across label options on the same payload",
            "MSM corpus x options {0,1,2,True}: attribute dicts may differ only in cell signal labels; label map is a "
            "function of (constellation, signal ID); non-MSM messages unaffected.",
            "Trusted: refmodel corpus."),
    "C17": ("exploration", "3-C17",
            "differential monitor across reader options with per-frame consumption offsets from the recording stream",
            "Same streams under validate/parsed/labelmsm/mode combinations: wrong-CRC frames accepted and decoded "
            "identically with validate=0, parsed=False yields same raw sequence, consumption offsets identical.",
            "Trusted: RecordingStream offsets."),
    "C18": ("exploration", "3-C18",
            "helper output compared with flat attributes / refmodel expectation; reserved and unknown numbers must "
            "return nothing",
            "parse_msm / parse_4076_201 on MSM corpus, all (layers, N, M) combos, all other identities and all 4096 stubs.",
            "Trusted: refmodel."),
    "C19": ("exploration", "3-C19",
            "name helpers compared with generator knowledge (field key, indices) for every generated attribute name",
            "All attribute names of the C03 corpus (1/2 nesting levels, 2/3-digit indices).",
            "Trusted: refmodel naming."),
}


def main():
    checks = []
    na = []
    for pid, (cat, ref, tech, text, note) in P.items():
        if os.path.exists(os.path.join(VERIF, "vf", "checks", pid.lower() + ".py")):
            checks.append({
                "property_id": pid,
                "quick_cmd": f"{PY} check.py {pid} --tier quick",
                "thorough_cmd": f"{PY} check.py {pid} --tier thorough",
                "evidence_file": f"evidence/{pid}.json",
                "replay_cmd_template": f"{PY} check.py {pid} --replay {{path}}",
                "engine": "vf-runtime-monitor",
                "level_claimed": {"category": cat, "text": text, "design_ref": f"DESIGN.md §{ref}"},
                "level_note": note,
                "technique": "runtime monitoring: " + tech,
            })
        else:
            na.append({"property_id": pid, "reason": "check not built yet (in progress); will be claimed when its monitor exists"})
    m = {
        "version": 1,
        "setup_cmd": "/venv/bin/pip install --quiet --no-index --find-links /opt/veriftools/wheels --target /verif/.deps icontract || true",
        "hooks": {
            "guard": "PYRTCM_VERIF",
            "enable": "no source hooks: monitors attach from outside (wrappers, icontract on the real callables, "
                      "sys.monitoring, doubles injected as stream/socket); checks import /repo/src directly",
            "baseline_off_cmd": "cd /repo && /venv/bin/python -m pytest -ra -q -p no:cacheprovider --timeout=900 "
                                "--continue-on-collection-errors",
            "source_commits": [],
            "add_only": True,
        },
        "engines": [{
            "name": "vf-runtime-monitor",
            "path": "check.py",
            "serves_properties": [c["property_id"] for c in checks],
            "kind_free_text": "runtime monitoring: hostile/stress workloads over the real code with boundary monitors, "
                              "reference models, icontract contracts, sys.monitoring; 16 subprocess workers",
        }],
        "checks": checks,
        "notes": "Exit 0 held-on-observed, 1 VIOLATION, 2 INCONCLUSIVE (monitor not reached / watchdog). "
                 "KNOWN_FINDINGS.txt lists fixed defects; see DESIGN.md.",
        "not_applicable": na,
    }
    with open(os.path.join(VERIF, "MANIFEST.json"), "w", encoding="utf-8") as f:
        json.dump(m, f, indent=1)
        f.write("\n")
    print("claimed:", [c["property_id"] for c in checks], "n/a:", [n["property_id"] for n in na])


if __name__ == "__main__":
    main()
