#!/venv/bin/python -B
"""check.py Cxx [--tier quick|thorough] [--seed N] [--replay FILE]

Exit 0: property held on everything observed (KNOWN-FINDING lines possible).
Exit 1: 'VIOLATION property=<id> replay=<path>' printed.
Exit 2: 'INCONCLUSIVE ...' (deciding monitor never reached, worker died, watchdog fired).
"""

import argparse
import os
import sys

sys.dont_write_bytecode = True
sys.path.insert(0, os.path.dirname(os.path.abspath(__file__)))

from vf import runner  # noqa: E402


def main():
    ap = argparse.ArgumentParser()
    ap.add_argument("prop")
    ap.add_argument("--tier", default=os.environ.get("VERIF_TIER", "quick"))
    ap.add_argument("--seed", type=int, default=int(os.environ.get("VERIF_SEED", "0") or 0))
    ap.add_argument("--replay")
    ap.add_argument("--worker", type=int)
    ap.add_argument("--nworkers", type=int, default=1)
    ap.add_argument("--out")
    a = ap.parse_args()
    prop = a.prop.upper()
    if a.tier not in ("quick", "thorough"):
        a.tier = "quick"
    if a.replay:
        sys.exit(runner.replay(prop, a.replay))
    if a.worker is not None:
        runner.worker_main(prop, a.tier, a.seed, a.worker, a.nworkers, a.out)
        return
    sys.exit(runner.drive(prop, a.tier, a.seed))


if __name__ == "__main__":
    main()
